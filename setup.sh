#!/bin/bash
# Build the framework offline from files on disk and self-test the stubs.
set -u
export VERIF_HOME="$(cd "$(dirname "$0")" && pwd)"
export VERIF_REPO="${VERIF_REPO:-/repo}"
export CARGO_NET_OFFLINE=true
cd "$VERIF_HOME" || exit 2
mkdir -p out evidence
cp "$VERIF_REPO/Cargo.lock" sim/Cargo.lock
(cd sim && cargo build --release --offline) > out/build.log 2>&1 || { echo "HARNESS-ERROR: build failed"; tail -n 40 out/build.log; exit 2; }
./target/release/sim selftest || exit 2
if [ -x js/run_jsim.sh ]; then ./js/run_jsim.sh selftest || exit 2; fi
echo "setup ok"
