//! Coordinator (hands out run indices, watches for stalls and crashes, minimises, writes
//! replay files and evidence) and worker (executes runs).
use crate::exec::{execute, short_op, ExecOpts, KnownFinding};
use crate::minimize;
use crate::model::*;
use crate::plan::{budget, load_corpus, plan};
use serde_json::json;
use std::collections::{BTreeMap, BTreeSet};
use std::io::{BufRead, BufReader, Read, Write};
use std::process::{Child, Command, Stdio};
use std::sync::atomic::{AtomicBool, AtomicU64, Ordering};
use std::sync::{Arc, Mutex};
use std::time::{Duration, Instant};

pub fn home() -> String {
    std::env::var("VERIF_HOME").unwrap_or_else(|_| "/verif".into())
}
pub fn corpus_path() -> String {
    format!("{}/corpus/corpus.json", home())
}
pub fn load_findings() -> Vec<KnownFinding> {
    let p = format!("{}/known_findings.json", home());
    match std::fs::read_to_string(&p) {
        Ok(s) => serde_json::from_str(&s).unwrap_or_else(|e| {
            println!("HARNESS-ERROR: cannot parse {}: {}", p, e);
            std::process::exit(2)
        }),
        Err(_) => vec![],
    }
}
pub fn root_seed() -> u64 {
    std::env::var("VERIF_SEED").ok().and_then(|s| s.trim().parse::<i64>().ok()).map(|v| v as u64).unwrap_or(1)
}

// ------------------------------------------------------------------------------------------
// worker
// ------------------------------------------------------------------------------------------
/// A worker or exec child that outlives its parent (parent killed while the child spins in an
/// endless loop of the code under test) would burn a CPU for ever: exit when the parent is gone.
pub fn die_with_parent() {
    // ... and a child in which the code under test allocates without end (a walk that no longer stops: gigabytes
    // within seconds, on a machine without swap) must die of it alone, as an abort that the coordinator triages
    // like any other crash, instead of taking the other workers with it: address space capped per child
    // (16 GiB unless VERIF_WORKER_MEM_GB says otherwise; the largest ordinary run uses well under 1 GiB).
    let gb: u64 = std::env::var("VERIF_WORKER_MEM_GB").ok().and_then(|s| s.parse().ok()).unwrap_or(16);
    if gb > 0 {
        let lim = libc::rlimit { rlim_cur: gb << 30, rlim_max: gb << 30 };
        unsafe {
            libc::setrlimit(libc::RLIMIT_AS, &lim);
        }
    }
    let parent = unsafe { libc::getppid() };
    std::thread::spawn(move || loop {
        std::thread::sleep(Duration::from_secs(1));
        if unsafe { libc::getppid() } != parent {
            std::process::exit(3);
        }
    });
}

pub fn worker(property: &str, tier: &str) {
    die_with_parent();
    crate::session::install_panic_hook();
    silence_stderr();
    let corpus = load_corpus(&corpus_path());
    let opts = ExecOpts { open_findings: load_findings(), collect_codes: std::env::var("SIM_COLLECT_CODES").is_ok(), code_dedup: true, heartbeat: true, ..Default::default() };
    let root = root_seed();
    let stdin = std::io::stdin();
    let stdout = std::io::stdout();
    for line in stdin.lock().lines() {
        let Ok(line) = line else { break };
        let Ok(idx) = line.trim().parse::<u64>() else { continue };
        {
            let mut o = stdout.lock();
            let _ = writeln!(o, "B {}", idx);
            let _ = o.flush();
        }
        let run = plan(&corpus, property, tier, root, idx);
        let out = execute(&run, &opts);
        let info = json!({"project": run.project.id, "label": run.label, "mode": run.mode, "ops": run.ops.len()});
        let mut o = stdout.lock();
        let _ = writeln!(o, "R {} {} {}", idx, serde_json::to_string(&info).unwrap(), serde_json::to_string(&out).unwrap());
        let _ = o.flush();
    }
}

/// swc prints parse errors to stderr from parse_with_swc; they are not part of any output.
pub fn silence_stderr() {
    unsafe {
        let devnull = libc::open(b"/dev/null\0".as_ptr() as *const libc::c_char, libc::O_WRONLY);
        if devnull >= 0 {
            libc::dup2(devnull, 2);
            libc::close(devnull);
        }
    }
}

/// CPU seconds (user + system) a process has consumed so far, from /proc/<pid>/stat.
/// Stall detection counts CPU time, not wall time: a worker that is merely starved by other
/// load makes no progress without burning CPU, a worker in an endless loop burns it.
pub fn process_cpu_secs(pid: u32) -> Option<f64> {
    let s = std::fs::read_to_string(format!("/proc/{}/stat", pid)).ok()?;
    let rest = &s[s.rfind(')')? + 2..];
    let f: Vec<&str> = rest.split_whitespace().collect();
    let utime: f64 = f.get(11)?.parse().ok()?;
    let stime: f64 = f.get(12)?.parse().ok()?;
    let hz = unsafe { libc::sysconf(libc::_SC_CLK_TCK) } as f64;
    Some((utime + stime) / if hz > 0.0 { hz } else { 100.0 })
}

// ------------------------------------------------------------------------------------------
// isolated execution of one explicit run (child process, progress lines, time limit)
// ------------------------------------------------------------------------------------------
pub enum Isolated {
    Done(Outcome),
    /// `probe`: what beff-core's emptiness probe showed last about the call that never returned
    Stalled { at_op: usize, probe: (u64, u64) },
    Crashed { at_op: usize, status: String },
}

pub fn exec_isolated(run: &Run, limit: Duration) -> Isolated {
    exec_isolated_masked(run, limit, None)
}

pub fn exec_isolated_masked(run: &Run, limit: Duration, mask: Option<&str>) -> Isolated {
    let dir = format!("{}/out/tmp", home());
    let _ = std::fs::create_dir_all(&dir);
    let path = format!("{}/iso_{}_{}.json", dir, std::process::id(), NEXT_TMP.fetch_add(1, Ordering::SeqCst));
    std::fs::write(&path, serde_json::to_string(run).unwrap()).expect("write temp run");
    let exe = std::env::current_exe().expect("current_exe");
    let mut cmd = match mask {
        Some(m) => {
            let mut c = Command::new("taskset");
            c.arg("-c").arg(m).arg(exe);
            c
        }
        None => Command::new(exe),
    };
    if mask.is_some() {
        other_environment(&mut cmd);
    }
    let mut child = cmd.arg("exec").arg(&path).arg("--progress").stdin(Stdio::null()).stdout(Stdio::piped()).stderr(Stdio::null()).spawn().expect("spawn exec child");
    let stdout = child.stdout.take().unwrap();
    let last_op = Arc::new(AtomicU64::new(0));
    let probe_steps = Arc::new(AtomicU64::new(0));
    let probe_negs = Arc::new(AtomicU64::new(0));
    let result: Arc<Mutex<Option<Outcome>>> = Arc::new(Mutex::new(None));
    let done = Arc::new(AtomicBool::new(false));
    let (l2, r2, d2) = (last_op.clone(), result.clone(), done.clone());
    let (ps2, pn2) = (probe_steps.clone(), probe_negs.clone());
    let reader = std::thread::spawn(move || {
        for line in BufReader::new(stdout).lines() {
            let Ok(line) = line else { break };
            if let Some(n) = line.strip_prefix("op ") {
                if let Ok(n) = n.trim().parse::<u64>() {
                    l2.store(n, Ordering::SeqCst);
                    ps2.store(0, Ordering::SeqCst);
                    pn2.store(0, Ordering::SeqCst);
                }
            } else if let Some(p) = line.strip_prefix("probe ") {
                let mut it = p.split_whitespace().filter_map(|x| x.parse::<u64>().ok());
                if let (Some(a), Some(b)) = (it.next(), it.next()) {
                    ps2.store(a, Ordering::SeqCst);
                    pn2.store(b, Ordering::SeqCst);
                }
            } else if let Some(j) = line.strip_prefix("RESULT ") {
                if let Ok(o) = serde_json::from_str::<Outcome>(j) {
                    *r2.lock().unwrap() = Some(o);
                }
            }
        }
        d2.store(true, Ordering::SeqCst);
    });
    let start = Instant::now();
    let mut stalled = false;
    let pid = child.id();
    loop {
        match child.try_wait() {
            Ok(Some(_)) => break,
            Ok(None) => {}
            Err(_) => break,
        }
        // the limit is CPU time of the child (wall time only as a very generous backstop)
        let cpu = process_cpu_secs(pid).unwrap_or_else(|| start.elapsed().as_secs_f64());
        if cpu > limit.as_secs_f64() || start.elapsed() > limit * 20 {
            stalled = true;
            let _ = child.kill();
            break;
        }
        std::thread::sleep(Duration::from_millis(20));
    }
    let status = child.wait().map(|s| format!("{}", s)).unwrap_or_else(|_| "?".into());
    let _ = reader.join();
    let _ = std::fs::remove_file(&path);
    let at_op = last_op.load(Ordering::SeqCst) as usize;
    if stalled {
        return Isolated::Stalled { at_op, probe: (probe_steps.load(Ordering::SeqCst), probe_negs.load(Ordering::SeqCst)) };
    }
    let taken = result.lock().unwrap().take();
    match taken {
        Some(o) => Isolated::Done(o),
        None => Isolated::Crashed { at_op, status },
    }
}
static NEXT_TMP: AtomicU64 = AtomicU64::new(0);
/// schema() / describe() / hash() / hash256() of a built parser failing with a foreign error:
/// outside C04's statement, counted for the evidence file only
pub static NODE_NOTES: AtomicU64 = AtomicU64::new(0);
/// modules that were wrapped by the working tree's own bundle-to-disk.ts (ES module and CommonJS)
pub static NODE_REAL_HOST: AtomicU64 = AtomicU64::new(0);

// ------------------------------------------------------------------------------------------
// coordinator
// ------------------------------------------------------------------------------------------
struct WorkerSlot {
    child: Child,
    current: Option<u64>,
    since: Instant,
    cpu_since: f64,
}

struct Agg {
    stats: Stats,
    results: u64,
    violations: BTreeMap<(String, String), (u64, Violation)>, // (property,class) -> first run index
    kf_lines: BTreeMap<String, (String, u64)>,                // id -> (first line, count)
    state_hashes: BTreeSet<u64>,
    history_hashes: BTreeSet<u64>,
    nontrivial_histories: BTreeSet<u64>,
    fs_hashes: BTreeSet<u64>,
    per_label: BTreeMap<String, u64>,
    per_project: BTreeSet<String>,
    log_hashes: BTreeMap<u64, u64>, // index -> log hash (determinism mode)
    codes: BTreeMap<u64, (CodeItem, u64)>, // module hash -> (module, run index)
    suspects: Vec<(u64, String)>,   // run index, "stalled"/"crashed"
    ops_total: u64,
    harness: Vec<String>,
    max_call_cpu_ms: u64,
}

/// The second batch of the cross-OS-process leg runs in processes that differ from the first in
/// everything a process inherits besides its program: working directory (the root, so that every
/// project file lies below it), CPU affinity, and the usual environment variables that libraries
/// consult (backtraces, locale, time zone, home, colour).  None of that is project content.
fn other_environment(cmd: &mut Command) {
    cmd.current_dir("/")
        .env("RUST_BACKTRACE", "1")
        .env("RUST_LIB_BACKTRACE", "1")
        .env("HOME", "/nonexistent-home")
        .env("TZ", "Pacific/Kiritimati")
        .env("LANG", "tr_TR.UTF-8")
        .env("LC_ALL", "tr_TR.UTF-8")
        .env("NO_COLOR", "1")
        .env("COLUMNS", "20")
        .env("USER", "nobody");
}

/// violations reported by the JavaScript host leg that ran just before (C14 only, see ./check)
fn hostleg_violations(property: &str) -> usize {
    let file = match property {
        "C14" => "hostleg.json",
        "C10" => "hostdet.json",
        _ => return 0,
    };
    let count = |file: &str| {
        std::fs::read_to_string(format!("{}/out/{}", home(), file))
            .ok()
            .and_then(|s| serde_json::from_str::<serde_json::Value>(&s).ok())
            .and_then(|v| v.get("violations").and_then(|x| x.as_array()).map(|a| a.len()))
            .unwrap_or(0)
    };
    count(file) + if property == "C14" { count("e2eleg.json") } else { count("e2edet.json") }
}

fn spawn_worker(property: &str, tier: &str, mask: Option<&str>) -> Child {
    let exe = std::env::current_exe().expect("current_exe");
    let mut cmd = match mask {
        Some(m) => {
            let mut c = Command::new("taskset");
            c.arg("-c").arg(m).arg(exe);
            c
        }
        None => Command::new(exe),
    };
    if mask.is_some() {
        other_environment(&mut cmd);
    }
    cmd.arg("worker").arg(property).arg(tier).stdin(Stdio::piped()).stdout(Stdio::piped()).stderr(Stdio::null()).spawn().expect("spawn worker")
}

pub struct CheckCfg {
    pub property: String,
    pub tier: String,
    pub runs: u64,
    pub workers: usize,
    pub determinism: bool,
    pub collect_codes: bool,
    pub only: Option<Vec<u64>>,
    /// pin every worker process to a single CPU (DashMap sizes its shards from the CPU count)
    pub pin_workers: bool,
}

pub struct CheckResult {
    pub agg_stats: Stats,
    pub violations: Vec<(Violation, String)>, // violation, replay path
    pub evidence: serde_json::Value,
    pub codes: BTreeMap<u64, (CodeItem, u64)>,
    pub harness_error: Option<String>,
    pub log_hashes: BTreeMap<u64, u64>,
}

pub fn run_batch(cfg: &CheckCfg, indices: Vec<u64>) -> (AggOut, Vec<(u64, String)>) {
    let agg = Arc::new(Mutex::new(Agg {
        stats: Stats::default(),
        results: 0,
        violations: BTreeMap::new(),
        kf_lines: BTreeMap::new(),
        state_hashes: BTreeSet::new(),
        history_hashes: BTreeSet::new(),
        nontrivial_histories: BTreeSet::new(),
        fs_hashes: BTreeSet::new(),
        per_label: BTreeMap::new(),
        per_project: BTreeSet::new(),
        log_hashes: BTreeMap::new(),
        codes: BTreeMap::new(),
        suspects: vec![],
        ops_total: 0,
        harness: vec![],
        max_call_cpu_ms: 0,
    }));
    let queue = Arc::new(Mutex::new(indices.into_iter().rev().collect::<Vec<u64>>()));
    let stall_limit = Duration::from_secs(std::env::var("SIM_STALL_SECS").ok().and_then(|s| s.parse().ok()).unwrap_or(20));
    let mut handles = vec![];
    if cfg.collect_codes {
        std::env::set_var("SIM_COLLECT_CODES", "1");
    }
    for w in 0..cfg.workers {
        let agg = agg.clone();
        let queue = queue.clone();
        let property = cfg.property.clone();
        let tier = cfg.tier.clone();
        // thorough C10: half of the workers run pinned to one CPU (DashMap shard count differs)
        let mask: Option<String> = if cfg.pin_workers { Some(format!("{}", w % 16)) } else { None };
        handles.push(std::thread::spawn(move || {
            loop {
                // (re)spawn a worker process and feed it until the queue is empty or it dies
                if queue.lock().unwrap().is_empty() {
                    break;
                }
                let child = spawn_worker(&property, &tier, mask.as_deref());
                let slot = Arc::new(Mutex::new(WorkerSlot { child, current: None, since: Instant::now(), cpu_since: 0.0 }));
                let mut stdin = slot.lock().unwrap().child.stdin.take().unwrap();
                let stdout = slot.lock().unwrap().child.stdout.take().unwrap();
                let finished = Arc::new(AtomicBool::new(false));
                // watchdog
                let (s2, f2) = (slot.clone(), finished.clone());
                let wd = std::thread::spawn(move || {
                    while !f2.load(Ordering::SeqCst) {
                        std::thread::sleep(Duration::from_millis(200));
                        let mut s = s2.lock().unwrap();
                        if s.current.is_some() && s.since.elapsed() > stall_limit {
                            // no progress for a while: a stall only if the worker also burnt that
                            // much CPU meanwhile (otherwise it is just starved by other load)
                            let cpu_now = process_cpu_secs(s.child.id()).unwrap_or(f64::MAX);
                            if cpu_now - s.cpu_since > stall_limit.as_secs_f64() || s.since.elapsed() > stall_limit * 30 {
                                let _ = s.child.kill();
                                return true;
                            }
                        }
                    }
                    false
                });
                let mut next = || queue.lock().unwrap().pop();
                let mut reader = BufReader::new(stdout);
                let mut alive = true;
                let mut line = String::new();
                if let Some(i) = next() {
                    let _ = writeln!(stdin, "{}", i);
                    let _ = stdin.flush();
                    let mut s = slot.lock().unwrap();
                    s.current = Some(i);
                    s.since = Instant::now();
                    s.cpu_since = process_cpu_secs(s.child.id()).unwrap_or(0.0);
                } else {
                    alive = false;
                }
                while alive {
                    line.clear();
                    match reader.read_line(&mut line) {
                        Ok(0) | Err(_) => break,
                        Ok(_) => {}
                    }
                    if line.starts_with("B ") {
                        let mut s = slot.lock().unwrap();
                        s.since = Instant::now();
                        s.cpu_since = process_cpu_secs(s.child.id()).unwrap_or(0.0);
                        continue;
                    }
                    if line.starts_with("HARNESS-ERROR") {
                        agg.lock().unwrap().harness.push(line.trim().to_string());
                        continue;
                    }
                    if let Some(rest) = line.strip_prefix("R ") {
                        let mut parts = rest.splitn(3, ' ');
                        let idx: u64 = parts.next().unwrap().parse().unwrap();
                        let info: serde_json::Value = serde_json::from_str(parts.next().unwrap()).unwrap();
                        let out: Outcome = serde_json::from_str(parts.next().unwrap().trim()).unwrap();
                        absorb(&mut agg.lock().unwrap(), idx, &info, out);
                        match next() {
                            Some(i) => {
                                let mut s = slot.lock().unwrap();
                                s.current = Some(i);
                                s.since = Instant::now();
                                s.cpu_since = process_cpu_secs(s.child.id()).unwrap_or(0.0);
                                drop(s);
                                let _ = writeln!(stdin, "{}", i);
                                let _ = stdin.flush();
                            }
                            None => {
                                slot.lock().unwrap().current = None;
                                alive = false;
                            }
                        }
                    }
                }
                drop(stdin);
                finished.store(true, Ordering::SeqCst);
                let killed = wd.join().unwrap_or(false);
                let cur = slot.lock().unwrap().current.take();
                let _ = slot.lock().unwrap().child.kill();
                let _ = slot.lock().unwrap().child.wait();
                if let Some(i) = cur {
                    let mut a = agg.lock().unwrap();
                    a.suspects.push((i, if killed { "stalled".into() } else { "crashed".into() }));
                    // every stalled run costs the watchdog limit: after a handful of them the batch
                    // has what it needs (they are triaged alone afterwards); do not spend an hour
                    let stalled = a.suspects.iter().filter(|(_, k)| k == "stalled").count();
                    if stalled >= 6 {
                        let mut q = queue.lock().unwrap();
                        if !q.is_empty() {
                            a.harness.push(format!("NOTE: batch cut short after {} stalled runs ({} run indices not executed)", stalled, q.len()));
                            q.clear();
                        }
                    }
                }
            }
        }));
    }
    for h in handles {
        let _ = h.join();
    }
    let a = Arc::try_unwrap(agg).ok().expect("agg").into_inner().unwrap();
    let suspects = a.suspects.clone();
    (AggOut(a), suspects)
}

pub struct AggOut(Agg);

fn absorb(a: &mut Agg, idx: u64, info: &serde_json::Value, out: Outcome) {
    a.results += 1;
    a.max_call_cpu_ms = a.max_call_cpu_ms.max(out.max_call_cpu_ms);
    a.stats.merge(&out.stats);
    a.ops_total += info["ops"].as_u64().unwrap_or(0);
    *a.per_label.entry(info["label"].as_str().unwrap_or("").to_string()).or_insert(0) += 1;
    a.per_project.insert(info["project"].as_str().unwrap_or("").to_string());
    for v in out.violations {
        let key = (v.property.clone(), v.class.clone());
        match a.violations.get(&key) {
            Some((i, _)) if *i <= idx => {}
            _ => {
                a.violations.insert(key, (idx, v));
            }
        }
    }
    for l in out.known_finding_lines {
        let id = l.rsplit('[').next().unwrap_or("").trim_end_matches(']').to_string();
        let e = a.kf_lines.entry(id).or_insert((l.clone(), 0));
        e.1 += 1;
        if l < e.0 {
            e.0 = l;
        }
    }
    a.state_hashes.extend(out.state_hashes);
    a.history_hashes.insert(out.history_hash);
    if out.nontrivial {
        a.nontrivial_histories.insert(out.history_hash);
    }
    a.fs_hashes.extend(out.built_fs_hashes);
    a.log_hashes.insert(idx, out.log_hash);
    for c in out.codes {
        match a.codes.get(&c.hash) {
            Some((_, i)) if *i <= idx => {}
            _ => {
                a.codes.insert(c.hash, (c, idx));
            }
        }
    }
}

fn replay_path(property: &str, run: &Run) -> String {
    let dir = format!("{}/out/replays/{}", home(), property);
    let _ = std::fs::create_dir_all(&dir);
    let body = serde_json::to_string(&(&run.project.files, &run.ops, &run.variants, &run.violation_class)).unwrap();
    format!("{}/{:016x}.json", dir, crate::rng::fnv64(body.as_bytes()))
}

pub fn check(cfg: &CheckCfg) -> i32 {
    crate::session::install_panic_hook();
    silence_stderr();
    let t0 = Instant::now();
    let root = root_seed();
    println!("SEED {} property={} tier={} runs={} workers={}", root, cfg.property, cfg.tier, cfg.runs, cfg.workers);
    let corpus = load_corpus(&corpus_path());
    let findings = load_findings();
    let opts = ExecOpts { open_findings: findings.clone(), ..Default::default() };
    let indices: Vec<u64> = match &cfg.only {
        Some(v) => v.clone(),
        None => (0..cfg.runs).chain((0..crate::plan::regress().len() as u64).map(|k| crate::plan::REG_BASE + k)).collect(),
    };
    let recorded_histories = if cfg.only.is_none() { crate::plan::regress().len() } else { 0 };
    let (AggOut(mut agg), suspects) = run_batch(cfg, indices);
    let wall_runs = t0.elapsed().as_secs_f64();

    // C10, clause "separate processes": the same run indices again in other OS processes (other
    // worker count, each pinned to one CPU, reversed order); every output of every build is in the
    // per-run log hash, so equal hashes = byte-identical outputs across processes.
    let mut cross_compared = 0u64;
    let mut cross_diff: Vec<u64> = vec![];
    // C14 uses the same leg: a run's log hash covers the session's and the fresh processes' outputs,
    // and the second batch executes the run after a different prefix of other runs in its OS process
    // (other state of the process-global SWC_GLOBALS, other allocator state): equal hashes = the
    // outputs do not depend on what else the process did before.
    if (cfg.property == "C10" || cfg.property == "C14") && cfg.only.is_none() {
        let n = if cfg.tier == "quick" { cfg.runs.min(4000) } else { cfg.runs.min(100_000) };
        let cfg2 = CheckCfg { property: cfg.property.clone(), tier: cfg.tier.clone(), runs: n, workers: 5, determinism: true, collect_codes: false, only: None, pin_workers: true };
        let (AggOut(b), _s2) = run_batch(&cfg2, (0..n).rev().collect());
        for (i, h) in &b.log_hashes {
            if let Some(h1) = agg.log_hashes.get(i) {
                cross_compared += 1;
                if h1 != h {
                    cross_diff.push(*i);
                }
            }
        }
        agg.stats.fresh_builds += b.stats.fresh_builds;
        agg.stats.c10_variants_built += b.stats.c10_variants_built;
        *agg.stats.fired.entry("separate_os_process_single_cpu".into()).or_insert(0) += cross_compared;
    }

    let mut harness_errors: Vec<String> = agg.harness.iter().filter(|l| !l.starts_with("NOTE:")).cloned().collect();
    harness_errors.sort();
    harness_errors.dedup();
    let cut_short: Vec<String> = agg.harness.iter().filter(|l| l.starts_with("NOTE:")).cloned().collect();
    let mut reported: Vec<(Violation, String)> = vec![];

    // stalls and crashes: re-run alone with per-operation progress; only a reproduced one counts
    let mut triaged: BTreeMap<String, u32> = BTreeMap::new();
    let mut suspects = suspects;
    suspects.sort();
    for (idx, kind) in suspects {
        // a few of each kind are triaged (each costs up to a minute); the rest are counted
        let n = triaged.entry(kind.clone()).or_insert(0);
        *n += 1;
        // one confirmed (and minimised) run per kind is enough; up to three attempts to get it
        let already = agg.violations.keys().any(|(p, c)| p == "C04" && ((kind == "stalled" && c == "hang") || (kind == "crashed" && c.starts_with("crash"))));
        if *n > 3 || already {
            agg.stats.probe("suspect_runs_not_triaged");
            agg.results += 1;
            continue;
        }
        let run = plan(&corpus, &cfg.property, &cfg.tier, root, idx);
        match exec_isolated(&run, Duration::from_secs(if kind == "stalled" { 30 } else { 60 })) {
            Isolated::Done(out) => {
                // did not reproduce in isolation
                if kind == "stalled" {
                    harness_errors.push(format!("run {} stalled in a worker but completed alone", idx));
                } else {
                    harness_errors.push(format!("run {} killed its worker but completed alone", idx));
                }
                let info = json!({"project": run.project.id, "label": run.label, "ops": run.ops.len()});
                absorb(&mut agg, idx, &info, out);
            }
            Isolated::Stalled { at_op, probe } => {
                let class = "hang".to_string();
                let mut r = run.clone();
                if r.variants.is_empty() {
                    r.ops.truncate(at_op + 1);
                }
                if known_alias_cycle(&mut agg, &findings, &r, "never returns") {
                    continue;
                }
                // KF-C04-26, identified by call site: the probe in beff-core shows the call inside
                // the branching emptiness decision, entered with many negated atoms
                if crate::session::probe_says_exponential(probe) {
                    if let Some(k) = findings.iter().find(|k| k.status == "open" && k.property == "C04" && k.signature.get("class").and_then(|x| x.as_str()) == Some("exponential-emptiness-decision")) {
                        let line = format!("KNOWN-FINDING: property=C04 {} (e.g. run {}: no answer within 30 s of CPU, {} steps so far, {} negated atoms) [{}]", k.what_fails, idx, probe.0, probe.1, k.id);
                        agg.kf_lines.entry(k.id.clone()).or_insert((line, 0)).1 += 1;
                        *agg.stats.known_findings.entry(k.id.clone()).or_insert(0) += 1;
                        agg.results += 1;
                        continue;
                    }
                }
                let r = minimize_isolated(&r, true);
                let v = Violation { property: "C04".into(), class: class.clone(), detail: json!({"stalled_at_op": at_op, "limit_s": 30}), op_index: at_op };
                agg.violations.entry(("C04".into(), class)).or_insert((idx, v.clone()));
                agg.stats.probe("confirmed_hang");
                agg.results += 1;
                stash_special(&mut agg, idx, r, v);
            }
            Isolated::Crashed { at_op, status } => {
                let class = format!("crash:{}", status);
                let mut r = run.clone();
                if r.variants.is_empty() {
                    r.ops.truncate(at_op + 1);
                }
                if known_alias_cycle(&mut agg, &findings, &r, "overflows the stack") {
                    continue;
                }
                let r = minimize_isolated(&r, false);
                let v = Violation { property: "C04".into(), class: class.clone(), detail: json!({"crashed_at_op": at_op, "status": status}), op_index: at_op };
                agg.violations.entry(("C04".into(), class)).or_insert((idx, v.clone()));
                agg.stats.probe("confirmed_crash");
                agg.results += 1;
                stash_special(&mut agg, idx, r, v);
            }
        }
    }

    let mut node_modules_checked = 0u64;
    if cfg.collect_codes {
        let cap = if cfg.tier == "quick" { 6000 } else { 60000 };
        let items: Vec<&CodeItem> = agg.codes.values().map(|(c, _)| c).take(cap).collect();
        node_modules_checked = items.len() as u64;
        match node_leg(&items, "check") {
            Err(e) => harness_errors.push(format!("node leg: {}", e)),
            Ok(bad) => {
                for (h, class, detail) in bad {
                    // KF-C04-11: the only requested parser name that is missing is `__proto__`
                    if class == "module-misses-requested-parser" && detail.get("missing").map(|m| m == &json!(["__proto__"])).unwrap_or(false) {
                        if let Some(k) = findings.iter().find(|k| k.status == "open" && k.id == "KF-C04-11") {
                            let line = format!("KNOWN-FINDING: property=C04 {} [{}]", k.what_fails, k.id);
                            agg.kf_lines.entry(k.id.clone()).or_insert((line, 0)).1 += 1;
                            *agg.stats.known_findings.entry(k.id.clone()).or_insert(0) += 1;
                            continue;
                        }
                    }
                    if let Some((item, _)) = agg.codes.get(&h) {
                        if item.alias_cycle {
                            if let Some(k) = findings.iter().find(|k| k.status == "open" && k.property == "C04" && k.signature.get("kind").and_then(|x| x.as_str()) == Some("noncontractive-alias-cycle")) {
                                let line = format!("KNOWN-FINDING: property=C04 emitted module fails in Node ({}) for a project with a constructor-free type-alias cycle [{}]", class, k.id);
                                agg.kf_lines.entry(k.id.clone()).or_insert((line, 0)).1 += 1;
                                *agg.stats.known_findings.entry(k.id.clone()).or_insert(0) += 1;
                                continue;
                            }
                        }
                    }
                    if let Some((_, idx)) = agg.codes.get(&h) {
                        let key = ("C04".to_string(), class.clone());
                        let v = Violation { property: "C04".into(), class: class.clone(), detail: json!({"module_hash": format!("{:016x}", h), "node": detail}), op_index: 0 };
                        match agg.violations.get(&key) {
                            Some((i, _)) if *i <= *idx => {}
                            _ => {
                                agg.violations.insert(key, (*idx, v));
                            }
                        }
                    }
                }
            }
        }
    }

    for idx in cross_diff.iter().take(3) {
        let mut run = plan(&corpus, &cfg.property, &cfg.tier, root, *idx);
        run.violation_class = "differ:across-os-processes".into();
        run.observed = json!({"property": cfg.property, "class": run.violation_class, "detail": "the per-run log hash (every output of every build of the run) differs between two OS processes (16 workers unpinned vs 5 workers each pinned to one CPU, started in another working directory with another environment, runs executed in another order)", "first_seen_in_run": idx, "root_seed": root});
        let path = replay_path(&cfg.property, &run);
        std::fs::write(&path, serde_json::to_string_pretty(&run).unwrap()).expect("write replay file");
        let v = Violation { property: cfg.property.clone(), class: run.violation_class.clone(), detail: run.observed.clone(), op_index: 0 };
        reported.push((v, path));
    }

    // minimise and write replay files
    let viols: Vec<((String, String), (u64, Violation))> = agg.violations.iter().map(|(k, v)| (k.clone(), v.clone())).collect();
    let mut notes: Vec<String> = vec![];
    for ((prop, class), (idx, v)) in viols {
        let special = SPECIAL.lock().unwrap().iter().find(|(i, _, vv)| *i == idx && vv.class == class).map(|(_, r, _)| r.clone());
        // known findings for hang/crash classes are matched by class prefix
        if special.is_some() {
            if let Some(k) = findings.iter().find(|k| k.status == "open" && k.property == prop && k.signature.get("kind").and_then(|x| x.as_str()) == Some("class") && k.signature.get("class").and_then(|x| x.as_str()).map(|c| class.starts_with(c)).unwrap_or(false)) {
                let line = format!("KNOWN-FINDING: property={} {} [{}]", prop, k.what_fails, k.id);
                agg.kf_lines.entry(k.id.clone()).or_insert((line, 0)).1 += 1;
                continue;
            }
        }
        // "one call used more than 3 s of CPU" is the one clause that reads a clock: it counts only when the
        // same run shows it again alone in a process of its own (twice, if need be) - like a stall, a slow call
        // that does not reproduce is the machine's doing and is noted, not reported
        if class.starts_with("slow-build") && special.is_none() {
            let r = plan(&corpus, &cfg.property, &cfg.tier, root, idx);
            let mut again = 0;
            for _ in 0..2 {
                match exec_isolated(&r, Duration::from_secs(120)) {
                    Isolated::Done(out) if !out.violations.iter().any(|v| v.class == class) => {}
                    _ => again += 1,
                }
            }
            if again < 2 {
                notes.push(format!("NOTE: run {} showed '{}' in the batch ({}) but not when executed alone twice: not reported", idx, class, v.detail));
                continue;
            }
        }
        let mut run = match special {
            Some(r) => r,
            None => {
                let r = plan(&corpus, &cfg.property, &cfg.tier, root, idx);
                minimize::minimize(&r, &opts, &prop, &class, Duration::from_secs(30))
            }
        };
        run.violation_class = class.clone();
        run.property = if run.variants.is_empty() { run.property.clone() } else { "C10".into() };
        // what the minimised run itself shows (the detail of the original run may differ)
        let detail = if class == "hang" || class.starts_with("crash") { v.detail.clone() } else { minimize::reproduces(&run, &opts, &prop, &class).map(|m| m.detail).unwrap_or(v.detail.clone()) };
        run.observed = json!({"property": prop, "class": class, "detail": detail, "first_seen_in_run": idx, "root_seed": root});
        let path = replay_path(&prop, &run);
        std::fs::write(&path, serde_json::to_string_pretty(&run).unwrap()).expect("write replay file");
        // the minimised file must reproduce in a fresh process
        let ok = replay_file(&path, true) == 1;
        if !ok {
            notes.push(format!("NOTE: minimised replay {} did not reproduce in a fresh process; writing the unminimised run", path));
            let mut r = plan(&corpus, &cfg.property, &cfg.tier, root, idx);
            r.violation_class = class.clone();
            r.observed = run.observed.clone();
            std::fs::write(&path, serde_json::to_string_pretty(&r).unwrap()).expect("write replay file");
        }
        if prop == cfg.property {
            reported.push((v, path));
        } else {
            notes.push(format!("NOTE: while checking {} a {} violation was seen (class {}): replay={} (reported by the {} check)", cfg.property, prop, class, path, prop));
        }
    }

    // samples: re-execute the first few runs with tracing
    let mut samples = vec![];
    let topts = ExecOpts { open_findings: findings.clone(), trace: true, ..Default::default() };
    for idx in 0..cfg.runs.min(3) {
        let run = plan(&corpus, &cfg.property, &cfg.tier, root, idx);
        if agg.violations.values().any(|(i, v)| *i == idx && (v.class == "hang" || v.class.starts_with("crash"))) {
            continue;
        }
        let out = execute(&run, &topts);
        samples.push(json!({
            "run_index": idx, "project": run.project.id, "flavour": run.label, "mode": run.mode,
            "files": run.project.files.keys().collect::<Vec<_>>(),
            "ops": run.ops.iter().map(short_op).collect::<Vec<_>>(),
            "variants": run.variants,
            "trace": out.trace,
        }));
    }

    let wall = t0.elapsed().as_secs_f64();
    let (distinct_nontrivial, rule) = match cfg.property.as_str() {
        "C14" => (agg.nontrivial_histories.len(), "runs are seeded histories (write/create/delete, deliver, update, rebuild, faults, checkpoint) over corpus projects; distinct = distinct hash of the explicit operation list incl. content hashes; non-trivial = the history replaced an already cached module with different content AND reached at least one checkpoint in a content-synced state where session and fresh process were actually compared".to_string()),
        "C10" => (agg.nontrivial_histories.len(), "one evaluation = one SimFs built by k fresh simulated processes that differ in hash keys, pre-registration order, repetition and entry-point order, outputs compared bytewise; distinct = distinct SimFs (hash of all paths and contents); non-trivial = the build produced code or at least one diagnostic".to_string()),
        _ => (agg.fs_hashes.len(), "every build of every run is checked against I-C04 (no panic, code xor >=1 diagnostic, both entry points agree, located diagnostics inside the file); distinct_nontrivial = distinct file-system states (hash of all paths and contents) that were actually built".to_string()),
    };
    let evidence = json!({
        "property_id": cfg.property,
        "tier": cfg.tier,
        "seed": root as i64,
        "level": "exploration",
        "wall_s": wall,
        "violations": reported.len() + hostleg_violations(&cfg.property),
        "coverage": {
            "evaluations": agg.results,
            "distinct_nontrivial": distinct_nontrivial,
            "rule": rule,
            "samples": samples,
            "simulated_runs": agg.results,
            "recorded_histories_replayed": recorded_histories,
            "recorded_histories_are": "the minimised replay files of every repaired defect (findings/) and of every detection of an independently written breaking change (seeded/*/replays/), corpus/regress_ssim.json; executed as explicit runs next to the seeded ones, every invariant evaluated",
            "runs_per_hour": (agg.results as f64 / wall_runs.max(0.001) * 3600.0) as u64,
            "simulated_time_events": agg.stats.events,
            "builds_in_sessions": agg.stats.builds,
            "fresh_process_builds": agg.stats.fresh_builds,
            "checkpoints": agg.stats.checkpoints,
            "checkpoints_compared_with_fresh_process": agg.stats.checkpoints_synced,
            "checkpoints_skipped_not_synced": agg.stats.checkpoints_skipped_unsynced,
            "checkpoints_handed_to_C10": agg.stats.checkpoints_handed_to_c10,
            "c04_builds_checked": agg.stats.c04_builds_checked,
            "c04_largest_cpu_time_of_one_api_call_ms": agg.max_call_cpu_ms,
            "c04_located_diagnostics_checked": agg.stats.c04_locations_checked,
            "c04_emitted_modules_imported_by_node": node_modules_checked,
            "c04_modules_wrapped_by_the_real_bundle_to_disk_as_esm_and_cjs": NODE_REAL_HOST.load(Ordering::Relaxed),
            "c04_distinct_emitted_modules_seen": agg.codes.len(),
            "c04_other_entry_points_failing_with_foreign_errors_noted_not_alarmed": NODE_NOTES.load(Ordering::SeqCst),
            "c10_comparisons": agg.stats.c10_comparisons,
            "c10_variants_built": agg.stats.c10_variants_built,
            "runs_compared_across_os_processes": cross_compared,
            "second_batch_processes_differ_in": "worker count (5 vs 16), CPU affinity (one CPU each), order of runs (reversed), working directory (/), environment (RUST_BACKTRACE, RUST_LIB_BACKTRACE, HOME, TZ, LANG, LC_ALL, NO_COLOR, COLUMNS, USER)",
            "faults_fired": agg.stats.fired,
            "rare_condition_probes": agg.stats.probes.iter().filter(|(k, _)| !k.starts_with("edit:")).map(|(k, v)| (k.clone(), *v)).collect::<BTreeMap<String, u64>>(),
            "editor_actions_by_kind": agg.stats.probes.iter().filter(|(k, _)| k.starts_with("edit:")).map(|(k, v)| (k[5..].to_string(), *v)).collect::<BTreeMap<String, u64>>(),
            "known_findings_hit": agg.stats.known_findings,
            "distinct_states_at_checkpoints": agg.state_hashes.len(),
            "distinct_histories": agg.history_hashes.len(),
            "distinct_fs_states_built": agg.fs_hashes.len(),
            "runs_per_flavour": agg.per_label,
            "corpus_projects_used": agg.per_project.len(),
            "operations_total": agg.ops_total,
            "components": crate::components_table(),
        },
        "assumptions": [
            "the SimHost resolver and watch-loop model (written from bundler.ts / commandeer.ts) stand in for tsc-slim resolveModuleName, chokidar and fs",
            "wasm-bindgen export wrappers and JsValue marshalling are not run; the inner functions they wrap are",
            "std HashMap keys come through the interposed libc getrandom symbol; one simulated process = one fresh OS thread, one runnable at a time",
            "a sampled search: a clean batch is evidence, not proof"
        ],
    });
    let edir = format!("{}/evidence", home());
    let _ = std::fs::create_dir_all(&edir);
    std::fs::write(format!("{}/{}.json", edir, cfg.property), serde_json::to_string_pretty(&evidence).unwrap()).expect("write evidence");

    for (_, (line, n)) in &agg.kf_lines {
        if line.contains(&format!("property={} ", cfg.property)) {
            println!("{} (x{})", line, n);
        } else {
            println!("NOTE: seen while checking {}: {} (x{})", cfg.property, line.replacen("KNOWN-FINDING:", "known finding", 1), n);
        }
    }
    for n in &notes {
        println!("{}", n);
    }
    println!(
        "SUMMARY property={} runs={} events={} builds={} fresh_builds={} checkpoints_compared={} distinct_nontrivial={} wall={:.1}s",
        cfg.property, agg.results, agg.stats.events, agg.stats.builds, agg.stats.fresh_builds, agg.stats.checkpoints_synced, distinct_nontrivial, wall
    );
    // vacuity guard: the oracles are differential (session vs fresh process, variant vs variant) or negative (no
    // panic, no hang), so a compiler that refuses nearly everything would pass them all; normally about half of
    // the fresh builds give code
    {
        let yes = *agg.stats.probes.get("fresh_build_gave_code").unwrap_or(&0);
        let no = *agg.stats.probes.get("fresh_build_gave_no_code").unwrap_or(&0);
        if cfg.only.is_none() && yes + no >= 1000 && yes * 10 < yes + no && reported.is_empty() {
            harness_errors.push(format!("the workload has become vacuous: only {} of {} fresh builds produced code (normally about half): nothing was decided about the code path", yes, yes + no));
        }
    }
    if !harness_errors.is_empty() {
        for e in &harness_errors {
            println!("HARNESS-ERROR: {}", e);
        }
        return 2;
    }
    for l in &cut_short {
        println!("{}", l);
    }
    if agg.results < cfg.runs && cut_short.is_empty() {
        println!("HARNESS-ERROR: only {} of {} runs produced a result", agg.results, cfg.runs);
        if reported.is_empty() {
            return 2;
        }
    }
    if !cut_short.is_empty() && reported.is_empty() {
        println!("HARNESS-ERROR: the batch was cut short by stalls, none of which was confirmed as a violation or known finding");
        return 2;
    }
    if !reported.is_empty() {
        for (v, path) in &reported {
            println!("VIOLATION property={} replay={} class={}", v.property, path, v.class);
        }
        return 1;
    }
    0
}

/// KF-C04-4 is identified by the input: the file system at the stalled / crashing build
/// contains a type-alias cycle with no type constructor in between.
fn known_alias_cycle(agg: &mut Agg, findings: &[KnownFinding], r: &Run, how: &str) -> bool {
    let Some(k) = findings.iter().find(|k| k.status == "open" && k.property == "C04" && k.signature.get("kind").and_then(|x| x.as_str()) == Some("noncontractive-alias-cycle")) else { return false };
    match crate::exec::any_view_alias_cycle(r) {
        Some((file, name)) => {
            let line = format!("KNOWN-FINDING: property=C04 build {} on a project with the constructor-free type-alias cycle through {}::{} (e.g. run {}) [{}]", how, file, name, r.run_index, k.id);
            agg.kf_lines.entry(k.id.clone()).or_insert((line, 0)).1 += 1;
            *agg.stats.known_findings.entry(k.id.clone()).or_insert(0) += 1;
            agg.results += 1;
            true
        }
        None => false,
    }
}

/// Node leg of I-C04: every emitted module is wrapped the way bundle-to-disk.ts wraps it and
/// imported by Node against the type-stripped client runtime; buildParsers with every declared
/// format registered must return a parser for every requested name.
/// Returns (module hash, violation class, detail) per failing module; Err = harness problem.
pub fn node_leg(items: &[&CodeItem], label: &str) -> Result<Vec<(u64, String, serde_json::Value)>, String> {
    if items.is_empty() {
        return Ok(vec![]);
    }
    let jsrt = format!("{}/out/jsrt", home());
    if !std::path::Path::new(&format!("{}/node_modules/@beff/client/package.json", jsrt)).exists() && crate::tools::prepare_js(&jsrt) != 0 {
        return Err("cannot prepare the type-stripped client runtime".into());
    }
    let dir = format!("{}/c04mods_{}_{}", jsrt, label, std::process::id());
    let _ = std::fs::remove_dir_all(&dir);
    std::fs::create_dir_all(&dir).map_err(|e| e.to_string())?;
    let nproc = 8usize.min(items.len());
    let mut lists: Vec<Vec<serde_json::Value>> = vec![vec![]; nproc];
    for (i, it) in items.iter().enumerate() {
        let file = format!("{}/{:016x}.mjs", dir, it.hash);
        let full = crate::tools::finalize(&it.code, "esm", &it.string_formats, &it.number_formats);
        std::fs::write(&file, full).map_err(|e| e.to_string())?;
        // every fourth module is also handed over as the compiler emitted it: the Node side wraps
        // it with the working tree's own bundle-to-disk.ts, as an ES module and as CommonJS
        let raw = if i % 4 == 0 {
            let rf = format!("{}/{:016x}.raw.js", dir, it.hash);
            std::fs::write(&rf, &it.code).map_err(|e| e.to_string())?;
            Some(rf)
        } else {
            None
        };
        lists[i % nproc].push(json!({"hash": format!("{:016x}", it.hash), "file": file, "raw": raw, "expected_keys": it.expected_keys, "string_formats": it.string_formats, "number_formats": it.number_formats}));
    }
    // one Node process per list; a process that reports a stalled module (its own watchdog
    // thread: 20 s of CPU without progress) is restarted on the rest of its list
    let jsrt2 = jsrt.clone();
    let dir2 = dir.clone();
    let handles: Vec<std::thread::JoinHandle<Result<Vec<(u64, String, serde_json::Value)>, String>>> = lists
        .into_iter()
        .enumerate()
        .map(|(k, list)| {
            let (jsrt, dir) = (jsrt2.clone(), dir2.clone());
            std::thread::spawn(move || {
                let mut out = vec![];
                let mut rest: Vec<serde_json::Value> = list;
                let mut restarts = 0;
                while !rest.is_empty() {
                    let lf = format!("{}/list_{}_{}.json", dir, k, restarts);
                    std::fs::write(&lf, serde_json::to_string(&rest).unwrap()).map_err(|e| e.to_string())?;
                    let o = Command::new("node").arg(format!("{}/js/jsim.mjs", home())).arg("c04node").arg(&lf).env("VERIF_HOME", home()).env("JSRT", &jsrt).stdin(Stdio::null()).stdout(Stdio::piped()).stderr(Stdio::piped()).output().map_err(|e| format!("cannot start node: {}", e))?;
                    let text = String::from_utf8_lossy(&o.stdout).to_string();
                    let mut done = false;
                    let mut stalled_at: Option<usize> = None;
                    let mut seen = 0usize;
                    for line in text.lines() {
                        let Ok(r) = serde_json::from_str::<serde_json::Value>(line) else { continue };
                        if r.get("done").is_some() {
                            done = true;
                            continue;
                        }
                        if let Some(i) = r.get("stalled_at").and_then(|x| x.as_u64()) {
                            stalled_at = Some(i as usize);
                            continue;
                        }
                        seen += 1;
                        if r["real_host"].as_bool() == Some(true) {
                            NODE_REAL_HOST.fetch_add(1, Ordering::Relaxed);
                        }
                        if r["ok"].as_bool() != Some(true) {
                            let h = u64::from_str_radix(r["hash"].as_str().unwrap_or("0"), 16).unwrap_or(0);
                            out.push((h, r["class"].as_str().unwrap_or("module-check-failed").to_string(), r["detail"].clone()));
                        }
                    }
                    if done {
                        break;
                    }
                    match stalled_at {
                        Some(i) if i < rest.len() => {
                            let h = u64::from_str_radix(rest[i]["hash"].as_str().unwrap_or("0"), 16).unwrap_or(0);
                            out.push((h, "module-parser-never-returns".to_string(), json!({"limit": "20 s of CPU without progress while loading the module or calling validate / safeParse / parse"})));
                            rest = rest.split_off(i + 1);
                            restarts += 1;
                            if restarts > 6 {
                                break;
                            }
                        }
                        _ => {
                            return Err(format!("node leg died after {} modules without a result: {}", seen, String::from_utf8_lossy(&o.stderr).chars().take(400).collect::<String>()));
                        }
                    }
                }
                Ok(out)
            })
        })
        .collect();
    let mut out = vec![];
    for h in handles {
        out.extend(h.join().map_err(|_| "node leg thread panicked".to_string())??);
    }
    let _ = std::fs::remove_dir_all(&dir);
    Ok(out)
}

static SPECIAL: Mutex<Vec<(u64, Run, Violation)>> = Mutex::new(vec![]);
fn stash_special(_agg: &mut Agg, idx: u64, r: Run, v: Violation) {
    SPECIAL.lock().unwrap().push((idx, r, v));
}

/// Minimisation for hang / crash classes: every candidate runs in its own process.
fn minimize_isolated(run: &Run, hang: bool) -> Run {
    let start = Instant::now();
    let limit = if hang { Duration::from_secs(8) } else { Duration::from_secs(20) };
    let bad = |r: &Run| match exec_isolated(r, limit) {
        Isolated::Done(_) => false,
        Isolated::Stalled { .. } => hang,
        Isolated::Crashed { .. } => !hang,
    };
    let mut best = run.clone();
    // drop operations one at a time, from the front (the last op is the one that stalls)
    let mut i = 0;
    while i + 1 < best.ops.len() && start.elapsed() < Duration::from_secs(60) {
        let mut c = best.clone();
        c.ops.remove(i);
        if bad(&c) {
            best = c;
        } else {
            i += 1;
        }
    }
    let files: Vec<String> = best.project.files.keys().cloned().collect();
    for f in files {
        if start.elapsed() > Duration::from_secs(90) || f == best.project.entry {
            continue;
        }
        let mut c = best.clone();
        c.project.files.remove(&f);
        if bad(&c) {
            best = c;
        }
    }
    // fold the writes into the project when that keeps the failure, then drop declarations
    {
        let mut c = best.clone();
        c.project.files = crate::exec::final_fs(&c);
        c.ops.retain(|o| !matches!(o, Op::Write { .. } | Op::WritePrefix { .. } | Op::Delete { .. }));
        if !c.ops.is_empty() && bad(&c) {
            best = c;
        }
    }
    let files: Vec<String> = best.project.files.keys().cloned().collect();
    for f in files {
        loop {
            if start.elapsed() > Duration::from_secs(150) {
                break;
            }
            let content = best.project.files[&f].clone();
            let Some(items) = crate::edits::items(&f, &content) else { break };
            let mut shrunk = false;
            for it in items.iter().rev() {
                let mut c = best.clone();
                c.project.files.insert(f.clone(), format!("{}{}", &content[..it.lo], &content[it.hi..]));
                if bad(&c) {
                    best = c;
                    shrunk = true;
                    break;
                }
            }
            if !shrunk {
                break;
            }
        }
    }
    best
}

/// Replays a file in a fresh process. Returns 1 (violation reproduced, line printed unless
/// quiet), 0 (did not reproduce), 2 (harness error).
pub fn replay_file(path: &str, quiet: bool) -> i32 {
    let s = match std::fs::read_to_string(path) {
        Ok(s) => s,
        Err(e) => {
            println!("HARNESS-ERROR: cannot read {}: {}", path, e);
            return 2;
        }
    };
    let run: Run = match serde_json::from_str(&s) {
        Ok(r) => r,
        Err(e) => {
            println!("HARNESS-ERROR: cannot parse {}: {}", path, e);
            return 2;
        }
    };
    let want_prop = run.observed.get("property").and_then(|v| v.as_str()).unwrap_or(&run.property).to_string();
    let class = run.violation_class.clone();
    if class.starts_with("module-") {
        crate::session::install_panic_hook();
        silence_stderr();
        let opts = ExecOpts::default();
        return match minimize::reproduces(&run, &opts, "C04", &class) {
            Some(_) => {
                if !quiet {
                    println!("VIOLATION property=C04 replay={} class={}", path, class);
                }
                1
            }
            None => {
                if !quiet {
                    println!("replay of {} did not reproduce class '{}'", path, class);
                }
                0
            }
        };
    }
    if class == "differ:across-os-processes" {
        let a = exec_isolated_masked(&run, Duration::from_secs(60), None);
        let b = exec_isolated_masked(&run, Duration::from_secs(60), Some("0"));
        return match (a, b) {
            (Isolated::Done(a), Isolated::Done(b)) if a.log_hash != b.log_hash => {
                if !quiet {
                    println!("VIOLATION property={} replay={} class={}", want_prop, path, class);
                }
                1
            }
            (Isolated::Done(_), Isolated::Done(_)) => {
                if !quiet {
                    println!("replay of {} did not reproduce class '{}'", path, class);
                }
                0
            }
            _ => 2,
        };
    }
    let hit = match exec_isolated(&run, Duration::from_secs(60)) {
        Isolated::Done(out) => out.violations.iter().find(|v| v.property == want_prop && (class.is_empty() || v.class == class)).map(|v| (v.property.clone(), v.class.clone())),
        Isolated::Stalled { probe, .. } => {
            let seen = if crate::session::probe_says_exponential(probe) { "exponential-emptiness-decision:hang" } else { "hang" };
            if class == seen || class.is_empty() {
                Some(("C04".to_string(), seen.to_string()))
            } else {
                None
            }
        }
        Isolated::Crashed { status, .. } => {
            if class.starts_with("crash") || class.is_empty() {
                Some(("C04".to_string(), format!("crash:{}", status)))
            } else {
                None
            }
        }
    };
    match hit {
        Some((p, c)) => {
            if !quiet {
                println!("VIOLATION property={} replay={} class={}", p, path, c);
            }
            1
        }
        None => {
            if !quiet {
                println!("replay of {} did not reproduce class '{}'", path, class);
            }
            0
        }
    }
}

pub fn read_all(mut r: impl Read) -> String {
    let mut s = String::new();
    let _ = r.read_to_string(&mut s);
    s
}

/// Determinism self-test: every run index twice, in different worker processes / worker counts.
pub fn determinism(property: &str, tier: &str, runs: u64) -> i32 {
    let mk = |workers| CheckCfg { property: property.to_string(), tier: tier.to_string(), runs, workers, determinism: true, collect_codes: false, only: None, pin_workers: false };
    let (AggOut(a), s1) = run_batch(&mk(16), (0..runs).collect());
    let (AggOut(b), s2) = run_batch(&mk(3), (0..runs).rev().collect());
    let mut diff = 0;
    for (i, h) in &a.log_hashes {
        if b.log_hashes.get(i) != Some(h) {
            diff += 1;
            println!("NONDETERMINISM run {} log {:016x} vs {:?}", i, h, b.log_hashes.get(i));
        }
    }
    println!("determinism: property={} runs={} compared={} differing={} suspects={}/{}", property, runs, a.log_hashes.len(), diff, s1.len(), s2.len());
    if diff > 0 || a.log_hashes.len() != b.log_hashes.len() {
        1
    } else {
        0
    }
}

pub fn budget_for(property: &str, tier: &str) -> u64 {
    std::env::var("SIM_RUNS").ok().and_then(|s| s.parse().ok()).unwrap_or_else(|| budget(property, tier))
}
