//! Self-tests of the stubs and helpers shared with jsim (compile a project to a loadable module).
use crate::model::{Project, Variant};
use crate::session::fresh_process;

fn delete_comments(code: &str) -> String {
    // build.js: code.replace(/\/\/.*/g, "").replace(/\/\*.*\*\//g, "")  ('.' does not match newlines)
    let mut out = String::new();
    for (i, line) in code.split('\n').enumerate() {
        if i > 0 {
            out.push('\n');
        }
        let l = match line.find("//") {
            Some(p) => &line[..p],
            None => line,
        };
        let mut l = l.to_string();
        while let (Some(a), Some(b)) = (l.find("/*"), l.rfind("*/")) {
            if b >= a + 2 {
                l = format!("{}{}", &l[..a], &l[b + 2..]);
            } else {
                break;
            }
        }
        out.push_str(&l);
    }
    out
}

pub fn repo() -> String {
    std::env::var("VERIF_REPO").unwrap_or_else(|_| "/repo".into())
}

/// bundle-to-disk.ts `finalizeParserV2File`, re-stated.
pub fn finalize(wasm_code: &str, module: &str, string_formats: &[String], number_formats: &[String]) -> String {
    let gen_path = format!("{}/packages/beff-wasm/bundled-code/codegen-v2.js", repo());
    let mut gen_v2 = delete_comments(&std::fs::read_to_string(&gen_path).unwrap_or_else(|e| {
        println!("HARNESS-ERROR: cannot read {}: {}", gen_path, e);
        std::process::exit(2)
    }));
    let esm_tag = if module == "cjs" { "\nObject.defineProperty(exports, \"__esModule\", {\n  value: true\n});\n    " } else { "" };
    if module == "cjs" {
        gen_v2 = gen_v2.replacen("import {", "const {", 1).replacen("} from \"@beff/client/codegen-v2\";", "} = require(\"@beff/client/codegen-v2\");", 1);
    }
    let export_code = if module == "esm" { "export default" } else { "exports.default =" };
    let exports = format!("{} {{ buildParsers }};", export_code);
    let sf = format!("const RequiredStringFormats = {};", serde_json::to_string(string_formats).unwrap());
    let nf = format!("const RequiredNumberFormats = {};", serde_json::to_string(number_formats).unwrap());
    ["//@ts-nocheck", esm_tag, &gen_v2, &sf, &nf, wasm_code, &exports].join("\n")
}

pub fn selftest() -> i32 {
    if let Err(e) = crate::host::selftest_hash_keys() {
        println!("HARNESS-ERROR: getrandom interposition: {}", e);
        return 2;
    }
    println!("selftest: getrandom interposition effective");
    // the finalize stub against the committed e2e outputs (settings order is the beff.json order there)
    let corpus = crate::plan::load_corpus(&crate::coord::corpus_path());
    crate::session::install_panic_hook();
    crate::coord::silence_stderr();
    let mut checked = 0;
    let mut same = 0;
    for p in corpus.iter().filter(|p| p.origin_kind == "e2e") {
        let gen = format!("{}/{}/src/generated/parser.js", repo(), p.origin);
        let Ok(committed) = std::fs::read_to_string(&gen) else { continue };
        let cfg: serde_json::Value = serde_json::from_str(&std::fs::read_to_string(format!("{}/{}/beff.json", repo(), p.origin)).unwrap()).unwrap();
        let names = |k: &str| -> Vec<String> { cfg.get(k).and_then(|v| v.as_array()).map(|a| a.iter().filter_map(|x| x["name"].as_str().map(|s| s.to_string())).collect()).unwrap_or_default() };
        let fr = fresh_process(&p.files, &p.entry, &p.settings, &Variant { hash_seed: 7, preregister: vec![], repeat: false, diag_first: false, root: None, earlier: vec![], verbose: false });
        checked += 1;
        if let Some(code) = fr.first.code {
            let full = finalize(&code, &p.module, &names("stringFormats"), &names("numberFormats"));
            if full == committed {
                same += 1;
            } else {
                println!("selftest: note: {} differs from the committed parser.js (working tree changed the output, or the wrapper stub is off)", p.id);
            }
        } else {
            println!("selftest: note: {} does not compile on the current tree", p.id);
        }
    }
    println!("selftest: finalize wrapper reproduces {}/{} committed e2e parser.js files byte for byte", same, checked);
    if std::env::var("SIM_SELFTEST_STRICT").is_ok() && same != checked {
        return 2;
    }
    0
}

/// `sim compile <project.json|corpus-id> <out-file> [--settings-all]`: build with a fresh
/// simulated process and write the finalized module. Prints OK / ERR <diagnostics>.
pub fn compile_cmd(args: &[String]) -> i32 {
    crate::session::install_panic_hook();
    crate::coord::silence_stderr();
    let p: Project = if std::path::Path::new(&args[0]).exists() {
        serde_json::from_str(&std::fs::read_to_string(&args[0]).unwrap()).expect("project json")
    } else {
        let corpus = crate::plan::load_corpus(&crate::coord::corpus_path());
        match corpus.into_iter().find(|p| p.id == args[0]) {
            Some(p) => p,
            None => {
                println!("HARNESS-ERROR: no such project {}", args[0]);
                return 2;
            }
        }
    };
    let fr = fresh_process(&p.files, &p.entry, &p.settings, &Variant { hash_seed: 7, preregister: vec![], repeat: false, diag_first: false, root: None, earlier: vec![], verbose: false });
    match fr.first.code {
        Some(code) => {
            let full = finalize(&code, &p.module, &p.settings.string_formats, &p.settings.number_formats);
            std::fs::write(&args[1], full).expect("write module");
            println!("OK");
            0
        }
        None => {
            println!("ERR {}", serde_json::to_string(&fr.first.digest()).unwrap());
            1
        }
    }
}

/// `sim prepare-js <outdir>`: the Node side's inputs, rebuilt from /repo's working tree:
/// the type-stripped client runtime laid out as node_modules/@beff/client, a zod stub, and one
/// finalized ES module per corpus project that compiles (module index in index.json).
pub fn prepare_js(outdir: &str) -> i32 {
    crate::session::install_panic_hook();
    crate::coord::silence_stderr();
    let src = format!("{}/packages/beff-client/src", repo());
    let client = format!("{}/node_modules/@beff/client", outdir);
    let esm = format!("{}/dist/esm", client);
    let _ = std::fs::remove_dir_all(outdir);
    std::fs::create_dir_all(&esm).expect("mkdir");
    let mut names = vec![];
    let rd = match std::fs::read_dir(&src) {
        Ok(r) => r,
        Err(e) => {
            println!("HARNESS-ERROR: cannot read {}: {}", src, e);
            return 2;
        }
    };
    for e in rd {
        let p = e.unwrap().path();
        let n = p.file_name().unwrap().to_string_lossy().to_string();
        if let Some(stem) = n.strip_suffix(".ts") {
            let code = std::fs::read_to_string(&p).unwrap();
            match crate::strip::strip_source(&n, code) {
                Ok(js) => {
                    std::fs::write(format!("{}/{}.js", esm, stem), js).unwrap();
                    names.push(stem.to_string());
                }
                Err(e) => {
                    println!("HARNESS-ERROR: {}", e);
                    return 2;
                }
            }
        }
    }
    names.sort();
    let mut exports = serde_json::Map::new();
    exports.insert(".".into(), serde_json::json!("./dist/esm/index.js"));
    for n in &names {
        exports.insert(format!("./{}", n), serde_json::json!(format!("./dist/esm/{}.js", n)));
    }
    std::fs::write(format!("{}/package.json", client), serde_json::to_string_pretty(&serde_json::json!({"name": "@beff/client", "type": "module", "exports": exports})).unwrap()).unwrap();
    let zod = format!("{}/node_modules/zod", outdir);
    std::fs::create_dir_all(&zod).unwrap();
    std::fs::write(format!("{}/package.json", zod), "{\"name\":\"zod\",\"type\":\"module\",\"exports\":{\".\":\"./index.js\"}}").unwrap();
    std::fs::write(format!("{}/index.js", zod), "export const z = { custom: (check, message) => ({ _stub: true, check, message }) };\nexport default z;\n").unwrap();
    std::fs::write(format!("{}/package.json", outdir), "{\"type\":\"module\"}").unwrap();

    let mods = format!("{}/mods", outdir);
    std::fs::create_dir_all(&mods).unwrap();
    let corpus = js_corpus();
    // Every compile runs in a child process (chunks of 64, a crashing chunk is retried one by
    // one): a project that overflows the stack must not take the preparation down with it.
    let exe = std::env::current_exe().expect("current_exe");
    let mut index: Vec<serde_json::Value> = vec![];
    let mut crashed = 0usize;
    let run_chunk = |lo: usize, hi: usize| -> Option<Vec<serde_json::Value>> {
        let part = format!("{}/index_{}_{}.json", outdir, lo, hi);
        let mut child = std::process::Command::new(&exe).arg("prepare-js-chunk").arg(outdir).arg(lo.to_string()).arg(hi.to_string()).stdout(std::process::Stdio::null()).stderr(std::process::Stdio::null()).spawn().ok()?;
        let t0 = std::time::Instant::now();
        let st = loop {
            match child.try_wait().ok()? {
                Some(st) => break st,
                None => {
                    if t0.elapsed() > std::time::Duration::from_secs(30) {
                        let _ = child.kill();
                        let _ = child.wait();
                        return None;
                    }
                    std::thread::sleep(std::time::Duration::from_millis(5));
                }
            }
        };
        if !st.success() {
            return None;
        }
        let v: Vec<serde_json::Value> = serde_json::from_str(&std::fs::read_to_string(&part).ok()?).ok()?;
        let _ = std::fs::remove_file(&part);
        Some(v)
    };
    let mut lo = 0;
    while lo < corpus.len() {
        let hi = (lo + 64).min(corpus.len());
        match run_chunk(lo, hi) {
            Some(v) => index.extend(v),
            None => {
                for i in lo..hi {
                    match run_chunk(i, i + 1) {
                        Some(v) => index.extend(v),
                        None => crashed += 1,
                    }
                }
            }
        }
        lo = hi;
    }
    std::fs::write(format!("{}/index.json", outdir), serde_json::to_string_pretty(&index).unwrap()).unwrap();
    if crashed > 0 {
        println!("prepare-js: {} project(s) crashed or hung the compiler and were skipped (the C04 check's business)", crashed);
    }
    println!("prepare-js: stripped {} runtime files, compiled {} of {} corpus projects", names.len(), index.len(), corpus.len());
    0
}

fn js_corpus() -> Vec<Project> {
    let mut corpus = crate::plan::load_corpus(&crate::coord::corpus_path());
    // plus seeded type graphs: named types sharing recursive members, discriminated unions,
    // unprintable (Date / bigint / Map / Set) leaves
    for k in 0..400u64 {
        corpus.push(crate::gen::synthetic_project(0xC16_0000 + k));
    }
    // literal unions whose sorted order differs between collation locales (sv: z < ä, cs: h < ch)
    {
        let mut files = std::collections::BTreeMap::new();
        files.insert("/p/entry.ts".to_string(), "import parse from \"./gen/parser\";\nexport type Umlauts = \"z\" | \"\u{e4}\" | \"a\" | \"A\";\nexport type Digraphs = \"h\" | \"ch\" | \"i\" | \"c\";\nexport type Mixed = \"\u{e5}\" | \"aa\" | \"z\" | 10 | 9 | true;\nexport type Holder = { u: Umlauts; d?: Digraphs; m: Mixed[]; kind: \"\u{f6}\" | \"o\" | \"p\" };\nparse.buildParsers<{ Umlauts: Umlauts; Digraphs: Digraphs; Mixed: Mixed; Holder: Holder }>();\n".to_string());
        corpus.push(Project { id: "env_locale_literals".into(), origin: "verif/sim/src/tools.rs".into(), origin_kind: "synthetic".into(), entry: "/p/entry.ts".into(), settings: crate::model::Settings { string_formats: vec![], number_formats: vec![] }, module: "esm".into(), files });
    }
    // ... and the same for everything else the runtime may put in order: property keys, keys of a Record, values of a
    // discriminator, enum members (seeded change c13i-1 sorted property keys with localeCompare: da: z < aa, sv: z < ä,
    // cs: h < ch; upper / lower case is ordered differently by code point and by every ICU collation)
    {
        let mut files = std::collections::BTreeMap::new();
        files.insert("/p/entry.ts".to_string(), "import parse from \"./gen/parser\";\nexport type KeysSv = { z: string; \"\u{e4}\": number; a?: boolean; \"\u{e5}\": null; \"\u{f6}\"?: string[] };\nexport type KeysCs = { h: string; ch: number; i?: boolean; c: null; d: { ch: 1; h: 2; cz: 3 } };\nexport type KeysDa = { aa: string; z: number; ab?: boolean; \"\u{e5}\": 1 };\nexport type KeysCase = { b: 1; B: 2; a: 3; A: 4; _x: 5; \"1\": 6; \"10\": 7; \"9\": 8 };\nexport type RecSv = Record<\"z\" | \"\u{e4}\" | \"\u{f6}\" | \"a\", number>;\nexport type RecCs = Partial<Record<\"h\" | \"ch\" | \"i\", KeysCs>>;\nexport type DiscSv = { kind: \"z\"; a: string } | { kind: \"\u{e4}\"; b: number } | { kind: \"a\"; c: boolean };\nexport type DiscCs = { kind: \"h\"; a: string } | { kind: \"ch\"; b: number } | { kind: \"i\"; c: boolean };\nexport enum EnumSv { Zed = \"z\", Ae = \"\u{e4}\", Ay = \"a\" }\nexport type UsesAll = { sv: KeysSv; cs: KeysCs; da: KeysDa; e: EnumSv; d: DiscSv | null; t: [KeysCase, RecSv] };\nparse.buildParsers<{ KeysSv: KeysSv; KeysCs: KeysCs; KeysDa: KeysDa; KeysCase: KeysCase; RecSv: RecSv; RecCs: RecCs; DiscSv: DiscSv; DiscCs: DiscCs; EnumSv: EnumSv; UsesAll: UsesAll }>();\n".to_string());
        corpus.push(Project { id: "env_locale_keys".into(), origin: "verif/sim/src/tools.rs".into(), origin_kind: "synthetic".into(), entry: "/p/entry.ts".into(), settings: crate::model::Settings { string_formats: vec![], number_formats: vec![] }, module: "esm".into(), files });
    }
    // modules of the recorded histories (corpus/regress_jsim_projects.json, tools/build_regress.py)
    if let Ok(txt) = std::fs::read_to_string(format!("{}/corpus/regress_jsim_projects.json", crate::coord::home())) {
        if let Ok(ps) = serde_json::from_str::<Vec<Project>>(&txt) {
            for p in ps {
                if !corpus.iter().any(|q| q.id == p.id) {
                    corpus.push(p);
                }
            }
        }
    }
    // stress modules (id prefix "stress_"): used by the hash256 termination leg only
    for (n, style) in [(5, 0), (7, 1), (9, 0), (11, 2), (14, 0)] {
        corpus.push(crate::gen::dense_recursive_project(n, style));
    }
    corpus
}

/// child of prepare-js: compile projects lo..hi of the jsim corpus, write modules and a partial index
pub fn prepare_js_chunk(outdir: &str, lo: usize, hi: usize) -> i32 {
    crate::session::install_panic_hook();
    crate::coord::silence_stderr();
    let corpus = js_corpus();
    let mods = format!("{}/mods", outdir);
    let mut index = vec![];
    for p in &corpus[lo..hi.min(corpus.len())] {
        let fr = fresh_process(&p.files, &p.entry, &p.settings, &Variant { hash_seed: 7, preregister: vec![], repeat: false, diag_first: false, root: None, earlier: vec![], verbose: false });
        if let Some(code) = fr.first.code {
            let full = finalize(&code, "esm", &p.settings.string_formats, &p.settings.number_formats);
            let file = format!("{}/{}.mjs", mods, p.id);
            std::fs::write(&file, full).unwrap();
            // the sources go next to the module, so that a replay file can carry them (synthetic ids do
            // not outlive a change of the generator)
            let _ = std::fs::write(format!("{}/{}.project.json", mods, p.id), serde_json::to_string(p).unwrap());
            index.push(serde_json::json!({"id": p.id, "file": file, "string_formats": p.settings.string_formats, "number_formats": p.settings.number_formats, "origin_kind": p.origin_kind}));
        }
    }
    std::fs::write(format!("{}/index_{}_{}.json", outdir, lo, hi), serde_json::to_string(&index).unwrap()).unwrap();
    0
}
