//! Driving the real beff-wasm session layer natively: builds, fresh simulated processes.
use crate::host::{seed_this_thread_hash_keys, Fs, Shared, SimHost};
use crate::model::{Settings, Triple, Variant};
use beff_wasm::verif_host as api;
use std::cell::RefCell;
use std::panic::{catch_unwind, AssertUnwindSafe};
use std::rc::Rc;

thread_local! {
    static LAST_PANIC: RefCell<Option<String>> = const { RefCell::new(None) };
    static IN_GUARD: std::cell::Cell<bool> = const { std::cell::Cell::new(false) };
}

pub const STACK_BYTES: usize = 8 << 20;

pub fn install_panic_hook() {
    std::panic::set_hook(Box::new(|info| {
        let msg = if let Some(s) = info.payload().downcast_ref::<&str>() {
            s.to_string()
        } else if let Some(s) = info.payload().downcast_ref::<String>() {
            s.clone()
        } else {
            "<non-string panic payload>".to_string()
        };
        let loc = info
            .location()
            .map(|l| format!("{}:{}", l.file(), l.line()))
            .unwrap_or_else(|| "<unknown>".into());
        if !IN_GUARD.with(|g| g.get()) {
            // a panic of the harness itself, not of the code under test
            println!("HARNESS-ERROR: harness panic: {} @ {}", first_line(&msg, 300), loc);
        }
        LAST_PANIC.with(|p| *p.borrow_mut() = Some(format!("{} @ {}", first_line(&msg, 160), strip_repo(&loc))));
    }));
}

fn first_line(s: &str, max: usize) -> String {
    let l = s.lines().next().unwrap_or("");
    l.chars().take(max).collect()
}
fn strip_repo(loc: &str) -> String {
    // keep paths stable wherever /repo is mounted
    match loc.find("packages/") {
        Some(i) => loc[i..].to_string(),
        None => loc.to_string(),
    }
}

thread_local! {
    /// largest CPU time (ms) a single guarded API call of this thread has consumed
    pub static MAX_CALL_CPU_MS: std::cell::Cell<u64> = const { std::cell::Cell::new(0) };
    /// (emptiness-decision steps, largest number of negated atoms) of that slowest call, from the
    /// probe in beff-core (hook `beff_verif`)
    pub static MAX_CALL_PROBE: std::cell::Cell<(u64, u64)> = const { std::cell::Cell::new((0, 0)) };
}

/// CPU time the calling thread has spent in USER mode (getrusage(RUSAGE_THREAD).ru_utime). Not the
/// thread's CPU clock: that one also counts kernel time, and on an overloaded machine a page fault
/// or an munmap spins on kernel locks for seconds - seen as a 3.2 s "call" of a build that takes
/// 0.15 s (a false `slow-build` alarm on a benign change, DESIGN 9.12). A compile call is pure
/// computation, so user time is what it costs.
fn thread_cpu_ms() -> u64 {
    let mut ru: libc::rusage = unsafe { std::mem::zeroed() };
    unsafe {
        libc::getrusage(libc::RUSAGE_THREAD, &mut ru);
    }
    (ru.ru_utime.tv_sec as u64) * 1000 + (ru.ru_utime.tv_usec as u64) / 1000
}

pub fn take_max_call_cpu_ms() -> u64 {
    MAX_CALL_CPU_MS.with(|m| m.replace(0))
}
/// to be called before `take_max_call_cpu_ms`
pub fn take_max_call_probe() -> (u64, u64) {
    MAX_CALL_PROBE.with(|m| m.replace((0, 0)))
}

/// KF-C04-26: a slow or stalled build is attributed to the exponential emptiness decision of the
/// semantic engine iff the probe saw that much of it, entered with that many negated atoms
pub const EXPONENTIAL_STEPS: u64 = 1_000_000;
pub const EXPONENTIAL_NEGS: u64 = 6;
pub fn probe_says_exponential(p: (u64, u64)) -> bool {
    p.0 >= EXPONENTIAL_STEPS && p.1 >= EXPONENTIAL_NEGS
}

fn guarded<T>(f: impl FnOnce() -> T) -> Result<T, String> {
    let t0 = thread_cpu_ms();
    beff_core::verif_probe::reset();
    let r = guarded_inner(f);
    let dt = thread_cpu_ms().saturating_sub(t0);
    if dt >= MAX_CALL_CPU_MS.with(|m| m.get()) {
        MAX_CALL_PROBE.with(|m| m.set(beff_core::verif_probe::read()));
    }
    MAX_CALL_CPU_MS.with(|m| m.set(m.get().max(dt)));
    r
}

/// for the bridge (js/e2eleg.mjs): a guarded call on the current thread's session
pub fn guarded_pub<T>(f: impl FnOnce() -> T) -> Result<T, String> {
    guarded(f)
}

fn guarded_inner<T>(f: impl FnOnce() -> T) -> Result<T, String> {
    LAST_PANIC.with(|p| *p.borrow_mut() = None);
    let was = IN_GUARD.with(|g| g.replace(true));
    let r = catch_unwind(AssertUnwindSafe(f));
    IN_GUARD.with(|g| g.set(was));
    match r {
        Ok(v) => Ok(v),
        Err(_) => Err(LAST_PANIC
            .with(|p| p.borrow_mut().take())
            .unwrap_or_else(|| "<panic without hook record>".into())),
    }
}

pub fn install_host(shared: &Shared) {
    api::set_host(Some(Box::new(SimHost(shared.clone()))));
}

/// update_file_content(f, content) on the current thread's session.
pub fn update(shared: &Shared, f: &str, content: &str) -> Result<(), String> {
    shared.borrow_mut().handed(f, Some(content.to_string()));
    guarded(|| api::update_file_content(f, content))
}

pub fn build_string(shared: &Shared, entry: &str, settings: &str) -> (Option<String>, Vec<String>, Option<String>) {
    shared.borrow_mut().emitted.clear();
    let r = guarded(|| api::bundle_to_string(entry, settings));
    let emitted = std::mem::take(&mut shared.borrow_mut().emitted);
    match r {
        Ok(code) => (code, emitted, None),
        Err(p) => (None, emitted, Some(p)),
    }
}

pub fn build_diag(shared: &Shared, entry: &str, settings: &str) -> (Option<String>, Option<String>) {
    shared.borrow_mut().emitted.clear();
    match guarded(|| api::bundle_to_diagnostics(entry, settings)) {
        Ok(j) => (Some(j), None),
        Err(p) => (None, Some(p)),
    }
}

/// Both entry points on the current thread's session.
pub fn build_triple(shared: &Shared, entry: &str, settings: &str, diag_first: bool) -> Triple {
    let mut t = Triple::default();
    let mut do_diag = |t: &mut Triple| {
        if t.panic.is_none() {
            let (d, p) = build_diag(shared, entry, settings);
            t.diag = d;
            t.panic = p.map(|p| format!("bundle_to_diagnostics: {}", p));
        }
    };
    if diag_first {
        do_diag(&mut t);
    }
    if t.panic.is_none() {
        let (c, e, p) = build_string(shared, entry, settings);
        t.code = c;
        t.emitted = e;
        t.panic = p.map(|p| format!("bundle_to_string: {}", p));
    }
    if !diag_first {
        do_diag(&mut t);
    }
    t
}

pub struct FreshResult {
    pub first: Triple,
    pub second: Option<Triple>,
    pub files_read: Vec<String>,
    pub resolved_to: Vec<String>,
    pub update_panic: Option<String>,
    pub max_call_cpu_ms: u64,
    pub max_call_probe: (u64, u64),
}

/// A fresh simulated process: new thread (empty thread-local module cache), hash keys chosen by
/// the simulator, no faults, a snapshot of the file system.
fn relocate(path: &str, root: &str) -> String {
    match path.strip_prefix("/p/") {
        Some(rest) => format!("{}/{}", root, rest),
        None => path.to_string(),
    }
}

/// A logger that takes every record and renders its arguments (into nothing): what `beff -v` does
/// to the process as far as the compiler can tell. The maximum level is process-global; exactly
/// one simulated process runs at a time.
struct NullLogger;
impl log::Log for NullLogger {
    fn enabled(&self, _: &log::Metadata) -> bool {
        true
    }
    fn log(&self, record: &log::Record) {
        use std::fmt::Write;
        struct Sink;
        impl std::fmt::Write for Sink {
            fn write_str(&mut self, _: &str) -> std::fmt::Result {
                Ok(())
            }
        }
        let _ = write!(Sink, "{}", record.args());
    }
    fn flush(&self) {}
}
static NULL_LOGGER: NullLogger = NullLogger;
pub fn set_verbose(on: bool) {
    static ONCE: std::sync::Once = std::sync::Once::new();
    ONCE.call_once(|| {
        let _ = log::set_logger(&NULL_LOGGER);
    });
    log::set_max_level(if on { log::LevelFilter::Trace } else { log::LevelFilter::Off });
}

pub fn fresh_process(fs: &Fs, entry: &str, settings: &Settings, v: &Variant) -> FreshResult {
    set_verbose(v.verbose);
    let r = fresh_process_inner(fs, entry, settings, v);
    set_verbose(false);
    r
}
fn fresh_process_inner(fs: &Fs, entry: &str, settings: &Settings, v: &Variant) -> FreshResult {
    if let Some(root) = &v.root {
        // same project, other absolute location; outputs are mapped back to "/p"
        let fs2: Fs = fs.iter().map(|(k, c)| (relocate(k, root), c.clone())).collect();
        let mut v2 = v.clone();
        v2.root = None;
        v2.preregister = v.preregister.iter().map(|f| relocate(f, root)).collect();
        v2.earlier = v.earlier.iter().map(|r| r.iter().map(|(f, c)| (relocate(f, root), c.clone())).collect()).collect();
        let mut r = fresh_process(&fs2, &relocate(entry, root), settings, &v2);
        let back = |s: &str| s.replace(&format!("{}/", root), "/p/");
        let fix = |t: &mut Triple| {
            t.code = t.code.as_ref().map(|c| back(c));
            t.emitted = t.emitted.iter().map(|e| back(e)).collect();
            t.diag = t.diag.as_ref().map(|d| back(d));
        };
        fix(&mut r.first);
        if let Some(s) = r.second.as_mut() {
            fix(s);
        }
        r.files_read = r.files_read.iter().map(|f| back(f)).collect();
        r.resolved_to = r.resolved_to.iter().map(|f| back(f)).collect();
        return r;
    }
    let fs = fs.clone();
    let entry = entry.to_string();
    let settings = settings.to_json();
    let v = v.clone();
    let h = std::thread::Builder::new()
        .stack_size(STACK_BYTES)
        .spawn(move || {
            seed_this_thread_hash_keys(v.hash_seed);
            let shared: Shared = Rc::new(RefCell::new(crate::host::new_host_state(fs)));
            install_host(&shared);
            let mut update_panic = None;
            if !v.earlier.is_empty() {
                let finals = shared.borrow().fs.clone();
                let mut touched: std::collections::BTreeSet<String> = Default::default();
                let mut absent: std::collections::BTreeSet<String> = Default::default();
                for round in &v.earlier {
                    for (f, c) in round {
                        if c == crate::model::ABSENT_IN_EARLIER_REVISION {
                            // the file does not exist yet; nothing is said to the session, neither now nor when it appears
                            shared.borrow_mut().fs.remove(f);
                            absent.insert(f.clone());
                            continue;
                        }
                        shared.borrow_mut().fs.insert(f.clone(), c.clone());
                        touched.insert(f.clone());
                        let _ = update(&shared, f, c);
                    }
                    let _ = build_triple(&shared, &entry, &settings, false);
                }
                for f in &absent {
                    if let (false, Some(c)) = (touched.contains(f), finals.get(f)) {
                        shared.borrow_mut().fs.insert(f.clone(), c.clone());
                    }
                }
                for f in &touched {
                    match finals.get(f) {
                        Some(c) => {
                            shared.borrow_mut().fs.insert(f.clone(), c.clone());
                            if let Err(p) = update(&shared, f, c) {
                                update_panic = Some(format!("update_file_content: {}", p));
                            }
                        }
                        None => {
                            shared.borrow_mut().fs.remove(f);
                        }
                    }
                }
                let mut st = shared.borrow_mut();
                st.resolve_log.clear();
                st.files_read.clear();
            }
            for f in &v.preregister {
                if update_panic.is_some() {
                    break;
                }
                let c = shared.borrow().fs.get(f).cloned();
                if let Some(c) = c {
                    if let Err(p) = update(&shared, f, &c) {
                        update_panic = Some(format!("update_file_content: {}", p));
                        break;
                    }
                }
            }
            let mut first = Triple::default();
            let mut second = None;
            if let Some(p) = &update_panic {
                first.panic = Some(p.clone());
            } else {
                first = build_triple(&shared, &entry, &settings, v.diag_first);
                if v.repeat && first.panic.is_none() {
                    second = Some(build_triple(&shared, &entry, &settings, v.diag_first));
                }
            }
            api::set_host(None);
            let st = shared.borrow();
            let mut resolved_to: Vec<String> = st.resolve_log.values().flatten().cloned().collect();
            resolved_to.sort();
            resolved_to.dedup();
            FreshResult {
                first,
                second,
                files_read: st.files_read.iter().cloned().collect(),
                resolved_to,
                update_panic,
                max_call_probe: take_max_call_probe(),
                max_call_cpu_ms: take_max_call_cpu_ms(),
            }
        })
        .expect("spawn fresh process thread");
    h.join().expect("fresh process thread must not die (panics are caught inside)")
}
