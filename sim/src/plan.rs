//! Which run a (property, index) pair denotes, and the budgets of the tiers.
use crate::gen::{self, Flavour};
use crate::model::{Project, Run};
use crate::rng::derive;

pub fn load_corpus(path: &str) -> Vec<Project> {
    let s = std::fs::read_to_string(path).unwrap_or_else(|e| {
        println!("HARNESS-ERROR: cannot read corpus {}: {}", path, e);
        std::process::exit(2)
    });
    serde_json::from_str(&s).unwrap_or_else(|e| {
        println!("HARNESS-ERROR: cannot parse corpus {}: {}", path, e);
        std::process::exit(2)
    })
}

pub fn budget(property: &str, tier: &str) -> u64 {
    match (property, tier) {
        ("C14", "quick") => 40_000,
        ("C14", _) => 2_000_000,
        ("C04", "quick") => 40_000,
        ("C04", _) => 3_000_000,
        ("C10", "quick") => 20_000,
        ("C10", _) => 300_000,
        _ => 100,
    }
}

pub fn c10_k(tier: &str) -> usize {
    if tier == "quick" {
        8
    } else {
        32
    }
}

/// Indices from here on denote the recorded histories of corpus/regress_ssim.json (minimised replay
/// files of every repaired defect and of every detection of an independently written breaking
/// change, tools/build_regress.py): explicit runs, executed by every ssim check next to the seeded ones.
pub const REG_BASE: u64 = 1 << 40;

#[derive(serde::Deserialize)]
struct RegressEntry {
    origin: String,
    run: Run,
}

pub fn regress() -> &'static Vec<(String, Run)> {
    static R: std::sync::OnceLock<Vec<(String, Run)>> = std::sync::OnceLock::new();
    R.get_or_init(|| {
        if std::env::var("SIM_NO_REGRESS").is_ok() {
            return vec![];
        }
        let path = format!("{}/corpus/regress_ssim.json", crate::coord::home());
        let Ok(s) = std::fs::read_to_string(&path) else { return vec![] };
        match serde_json::from_str::<Vec<RegressEntry>>(&s) {
            Ok(v) => v.into_iter().map(|e| (e.origin, e.run)).collect(),
            Err(e) => {
                println!("HARNESS-ERROR: cannot parse {}: {}", path, e);
                std::process::exit(2)
            }
        }
    })
}

pub fn plan(corpus: &[Project], property: &str, tier: &str, root: u64, index: u64) -> Run {
    if index >= REG_BASE {
        let (origin, r) = &regress()[(index - REG_BASE) as usize];
        let mut run = r.clone();
        run.root_seed = root;
        run.run_index = index;
        run.label = format!("recorded:{}", origin.split('/').next().unwrap_or(""));
        run.violation_class = String::new();
        run.observed = serde_json::Value::Null;
        return run;
    }
    let seed = derive(root, property, index);
    let mut run = match property {
        "C14" => {
            let fl = match index % 4 {
                0 => Flavour::ApiClean,
                1 => Flavour::ApiMixed,
                _ => Flavour::WatchFaults,
            };
            gen::generate_history(corpus, seed, "C14", fl)
        }
        "C04" => {
            let fl = match index % 4 {
                0 | 1 => Flavour::Damage,
                2 => Flavour::ApiMixed,
                _ => Flavour::WatchFaults,
            };
            gen::generate_history(corpus, seed, "C04", fl)
        }
        "C10" => gen::generate_c10(corpus, seed, index, c10_k(tier)),
        _ => {
            println!("HARNESS-ERROR: unknown ssim property {}", property);
            std::process::exit(2)
        }
    };
    run.root_seed = root;
    run.run_index = index;
    run
}
