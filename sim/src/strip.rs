//! Minimal TypeScript type stripper on the cached swc crates (no tsc / esbuild offline).
use std::collections::HashSet;
use swc_common::{sync::Lrc, FileName, SourceMap, GLOBALS, Globals};
use swc_ecma_ast::*;
use swc_ecma_codegen::{text_writer::JsWriter, Config, Emitter};
use swc_ecma_parser::{parse_file_as_module, Syntax, TsSyntax};
use swc_ecma_visit::{VisitMut, VisitMutWith, Visit, VisitWith};

struct Strip;
fn unwrap_ts(e: &mut Expr) {
    loop {
        let inner = match e {
            Expr::TsAs(x) => Some(std::mem::replace(&mut *x.expr, Expr::Invalid(Invalid{span:Default::default()}))),
            Expr::TsNonNull(x) => Some(std::mem::replace(&mut *x.expr, Expr::Invalid(Invalid{span:Default::default()}))),
            Expr::TsTypeAssertion(x) => Some(std::mem::replace(&mut *x.expr, Expr::Invalid(Invalid{span:Default::default()}))),
            Expr::TsConstAssertion(x) => Some(std::mem::replace(&mut *x.expr, Expr::Invalid(Invalid{span:Default::default()}))),
            Expr::TsSatisfies(x) => Some(std::mem::replace(&mut *x.expr, Expr::Invalid(Invalid{span:Default::default()}))),
            Expr::TsInstantiation(x) => Some(std::mem::replace(&mut *x.expr, Expr::Invalid(Invalid{span:Default::default()}))),
            _ => None,
        };
        match inner { Some(i) => { *e = Expr::Paren(ParenExpr{span:Default::default(), expr: Box::new(i)}); if let Expr::Paren(p) = e { let mut inner = std::mem::replace(&mut *p.expr, Expr::Invalid(Invalid{span:Default::default()})); unwrap_ts(&mut inner); *p.expr = inner; } return; } None => return }
    }
}
impl VisitMut for Strip {
    fn visit_mut_expr(&mut self, e: &mut Expr) { unwrap_ts(e); e.visit_mut_children_with(self); }
    fn visit_mut_binding_ident(&mut self, n: &mut BindingIdent) { n.type_ann = None; n.id.optional = false; }
    fn visit_mut_array_pat(&mut self, n: &mut ArrayPat) { n.type_ann = None; n.optional=false; n.visit_mut_children_with(self); }
    fn visit_mut_object_pat(&mut self, n: &mut ObjectPat) { n.type_ann = None; n.optional=false; n.visit_mut_children_with(self); }
    fn visit_mut_rest_pat(&mut self, n: &mut RestPat) { n.type_ann = None; n.visit_mut_children_with(self); }
    fn visit_mut_function(&mut self, n: &mut Function) { n.type_params=None; n.return_type=None; n.params.retain(|p| !matches!(&p.pat, Pat::Ident(i) if &*i.id.sym=="this")); n.visit_mut_children_with(self); }
    fn visit_mut_arrow_expr(&mut self, n: &mut ArrowExpr) { n.type_params=None; n.return_type=None; n.visit_mut_children_with(self); }
    fn visit_mut_call_expr(&mut self, n: &mut CallExpr) { n.type_args=None; n.visit_mut_children_with(self); }
    fn visit_mut_new_expr(&mut self, n: &mut NewExpr) { n.type_args=None; n.visit_mut_children_with(self); }
    fn visit_mut_opt_call(&mut self, n: &mut OptCall) { n.type_args=None; n.visit_mut_children_with(self); }
    fn visit_mut_tagged_tpl(&mut self, n: &mut TaggedTpl) { n.type_params=None; n.visit_mut_children_with(self); }
    fn visit_mut_var_declarator(&mut self, n: &mut VarDeclarator) { n.definite=false; n.visit_mut_children_with(self); }
    fn visit_mut_class(&mut self, n: &mut Class) {
        n.type_params=None; n.super_type_params=None; n.implements.clear(); n.is_abstract=false;
        n.body.retain(|m| match m {
            ClassMember::ClassProp(p) => !p.declare && !p.is_abstract,
            ClassMember::Method(m) => !m.is_abstract && m.function.body.is_some(),
            ClassMember::PrivateMethod(m) => !m.is_abstract && m.function.body.is_some(),
            ClassMember::Constructor(c) => c.body.is_some(),
            ClassMember::TsIndexSignature(_) => false,
            _ => true,
        });
        n.visit_mut_children_with(self);
    }
    fn visit_mut_class_prop(&mut self, n: &mut ClassProp) { n.type_ann=None; n.accessibility=None; n.readonly=false; n.is_optional=false; n.is_override=false; n.definite=false; n.visit_mut_children_with(self); }
    fn visit_mut_private_prop(&mut self, n: &mut PrivateProp) { n.type_ann=None; n.accessibility=None; n.readonly=false; n.is_optional=false; n.is_override=false; n.definite=false; n.visit_mut_children_with(self); }
    fn visit_mut_class_method(&mut self, n: &mut ClassMethod) { n.accessibility=None; n.is_optional=false; n.is_override=false; n.visit_mut_children_with(self); }
    fn visit_mut_constructor(&mut self, n: &mut Constructor) {
        n.accessibility=None;
        for p in &n.params { if let ParamOrTsParamProp::TsParamProp(_) = p { panic!("parameter properties unsupported by stripper"); } }
        n.visit_mut_children_with(self);
    }
    fn visit_mut_module_items(&mut self, items: &mut Vec<ModuleItem>) {
        items.retain(|it| match it {
            ModuleItem::Stmt(Stmt::Decl(Decl::TsInterface(_)|Decl::TsTypeAlias(_))) => false,
            ModuleItem::Stmt(Stmt::Decl(Decl::TsEnum(_)|Decl::TsModule(_))) => panic!("enum/namespace unsupported"),
            ModuleItem::ModuleDecl(ModuleDecl::ExportDecl(e)) => !matches!(e.decl, Decl::TsInterface(_)|Decl::TsTypeAlias(_)),
            ModuleItem::ModuleDecl(ModuleDecl::Import(i)) => !i.type_only,
            ModuleItem::ModuleDecl(ModuleDecl::ExportNamed(e)) => !e.type_only,
            ModuleItem::ModuleDecl(ModuleDecl::TsImportEquals(_)|ModuleDecl::TsExportAssignment(_)|ModuleDecl::TsNamespaceExport(_)) => panic!("unsupported"),
            _ => true,
        });
        for it in items.iter_mut() {
            if let ModuleItem::ModuleDecl(ModuleDecl::Import(i)) = it { i.specifiers.retain(|s| !matches!(s, ImportSpecifier::Named(n) if n.is_type_only)); }
            if let ModuleItem::ModuleDecl(ModuleDecl::ExportNamed(e)) = it { e.specifiers.retain(|s| !matches!(s, ExportSpecifier::Named(n) if n.is_type_only)); }
        }
        items.visit_mut_children_with(self);
    }
    fn visit_mut_stmts(&mut self, s: &mut Vec<Stmt>) {
        s.retain(|it| !matches!(it, Stmt::Decl(Decl::TsInterface(_)|Decl::TsTypeAlias(_))));
        s.visit_mut_children_with(self);
    }
}
struct Used(HashSet<String>);
impl Visit for Used {
    fn visit_ident(&mut self, n: &Ident) { self.0.insert(n.sym.to_string()); }
    fn visit_import_decl(&mut self, _n: &ImportDecl) {}
    fn visit_prop(&mut self, n: &Prop) { if let Prop::Shorthand(i) = n { self.0.insert(i.sym.to_string()); } n.visit_children_with(self); }
}

/// Type-strip one TypeScript file to plain ES2022 JavaScript. Fails loudly (exit code 2) on
/// syntax it does not handle rather than guessing.
pub fn strip_source(name: &str, src: String) -> Result<String, String> {
    let r = std::panic::catch_unwind(|| {
        GLOBALS.set(&Globals::new(), || {
            let cm: Lrc<SourceMap> = Default::default();
            let fm = cm.new_source_file(FileName::Custom(name.to_string()).into(), src);
            let mut errs = vec![];
            let mut m = match parse_file_as_module(&fm, Syntax::Typescript(TsSyntax::default()), EsVersion::latest(), None, &mut errs) {
                Ok(m) => m,
                Err(e) => return Err(format!("parse error in {}: {:?}", name, e)),
            };
            m.visit_mut_with(&mut Strip);
            let mut used = Used(HashSet::new());
            m.visit_with(&mut used);
            for it in m.body.iter_mut() {
                if let ModuleItem::ModuleDecl(ModuleDecl::Import(i)) = it {
                    let had = !i.specifiers.is_empty();
                    i.specifiers.retain(|s| {
                        let l = match s {
                            ImportSpecifier::Named(n) => &n.local,
                            ImportSpecifier::Default(n) => &n.local,
                            ImportSpecifier::Namespace(n) => &n.local,
                        };
                        used.0.contains(&*l.sym.to_string())
                    });
                    if had && i.specifiers.is_empty() {
                        *it = ModuleItem::Stmt(Stmt::Empty(EmptyStmt { span: Default::default() }));
                    }
                }
            }
            let mut buf = vec![];
            {
                let mut em = Emitter { cfg: Config::default(), cm: cm.clone(), comments: None, wr: JsWriter::new(cm.clone(), "\n", &mut buf, None) };
                em.emit_module(&m).map_err(|e| format!("emit: {}", e))?;
            }
            String::from_utf8(buf).map_err(|e| format!("utf8: {}", e))
        })
    });
    match r {
        Ok(x) => x,
        Err(_) => Err(format!("stripper does not handle some syntax in {} (enum / namespace / parameter property / import-equals)", name)),
    }
}

pub fn strip_file(input: &str, output: &str) -> i32 {
    let src = match std::fs::read_to_string(input) {
        Ok(s) => s,
        Err(e) => {
            println!("HARNESS-ERROR: cannot read {}: {}", input, e);
            return 2;
        }
    };
    match strip_source(input, src) {
        Ok(js) => {
            if let Some(d) = std::path::Path::new(output).parent() {
                let _ = std::fs::create_dir_all(d);
            }
            std::fs::write(output, js).expect("write stripped file");
            0
        }
        Err(e) => {
            println!("HARNESS-ERROR: {}", e);
            2
        }
    }
}
