//! Grammar-generated projects: a recursive, seeded generator over the TypeScript type syntax
//! (C04's quantifier: "grammar-generated programs over the whole TypeScript type syntax"). The
//! special-case shapes of `gen::synthetic_project` grew out of individual misses; this module is
//! the systematic complement: arbitrary nesting of every production, several declaration forms,
//! several import styles. Two modes: *tame* projects stay inside what beff documents as supported
//! and are well-founded (they mostly compile, so the Node leg, jsim and the session checks get
//! working modules out of them); *wild* projects add unsupported and ill-typed constructs (they
//! mostly answer with diagnostics - the location clauses and the panic sites live there).
//!
//! The generator is a workload, not an oracle: nothing here says what the compiler should answer.
//! Two rules keep the programs out of the open known finding KF-C04-4 (constructor-free alias
//! cycles), which would otherwise mask everything else found on them:
//!   * in an alias-transparent position (alias body, union / intersection member, conditional
//!     branch, operand of a type operator, type argument) only *earlier* declarations are named;
//!     later ones and the declaration itself only below a constructor (property, element, ...);
//!   * the operand of a projection (`X[K]`, mapped `X[K]`, `infer`) hands out what is below its
//!     constructors, so it may not mention - directly or through earlier declarations - anything
//!     declared later (`open` below).
use crate::model::*;
use crate::rng::Rng;
use std::collections::BTreeMap;

#[derive(Clone, PartialEq, Debug)]
enum Shape {
    Obj(Vec<String>),
    Tuple(usize),
    Other,
}

#[derive(Clone, Copy, PartialEq, Debug)]
enum Kind {
    Generic,
    Alias,
    Interface,
    Enum,
    Const,
    Namespace,
}

#[derive(Clone, Debug)]
struct Decl {
    name: String,
    kind: Kind,
    file: usize,
    nparams: usize,
    shape: Shape,
    /// mentions (transitively) a declaration that comes later
    open: bool,
    /// enum members / const keys
    members: Vec<String>,
    done: bool,
}

#[derive(Clone, Copy)]
struct Ctx {
    depth: usize,
    transparent: bool,
    no_forward: bool,
    /// inside the operand of a semantic operator: type arguments are primitives (nested
    /// instantiations of union-bodied generics there are the known finding KF-C04-26)
    flat_args: bool,
}
impl Ctx {
    fn down(self) -> Ctx {
        Ctx { depth: self.depth.saturating_sub(1), ..self }
    }
    fn guarded(self) -> Ctx {
        Ctx { depth: self.depth.saturating_sub(1), transparent: false, no_forward: self.no_forward, flat_args: self.flat_args }
    }
    fn closed(self) -> Ctx {
        Ctx { depth: self.depth.saturating_sub(1).min(2), transparent: true, no_forward: true, flat_args: true }
    }
}

struct G {
    rng: Rng,
    decls: Vec<Decl>,
    cur: usize,
    cur_file: usize,
    cur_open: bool,
    tparams: Vec<String>,
    wild: bool,
    n_files: usize,
    /// style[importer][exporter]: 0 named, 1 `import type`, 2 namespace import, 3 inline import type, 4 through the barrel
    style: Vec<Vec<u8>>,
    barrel: bool,
    in_generic_body: bool,
}

const KEYS: &[&str] = &["a", "b", "c", "d", "id", "name", "kind", "value", "next", "items"];
const ODD_KEYS: &[&str] = &["\"a-b\"", "\"with space\"", "\"0\"", "1", "\"\u{e9}\"", "\"constructor\"", "\"toString\"", "\"$ref\"", "\"quo\\\"te\"", "\"\""];

fn mod_name(k: usize) -> String {
    if k == 0 { "entry".into() } else { format!("m{}", k) }
}
fn file_name(k: usize) -> String {
    format!("/p/{}.ts", mod_name(k))
}

impl G {
    fn chance(&mut self, n: u32, d: u32) -> bool {
        self.rng.chance(n, d)
    }

    /// how declaration j is spelled from the file of the declaration being generated
    fn spell(&mut self, j: usize) -> String {
        let d = &self.decls[j];
        let name = d.name.clone();
        if d.file == self.cur_file {
            return name;
        }
        match self.style[self.cur_file][d.file] {
            2 => format!("M{}.{}", d.file, name),
            3 if d.kind != Kind::Const && d.kind != Kind::Enum => format!("import(\"./{}\").{}", mod_name(d.file), name),
            _ => name,
        }
    }

    fn note_ref(&mut self, j: usize) {
        if j >= self.cur || self.decls[j].open {
            self.cur_open = true;
        }
    }

    /// candidates a type reference may name under `c`
    fn ref_candidates(&self, c: Ctx, want_obj: bool, kinds: &[Kind]) -> Vec<usize> {
        let mut v = vec![];
        for (j, d) in self.decls.iter().enumerate() {
            if !kinds.contains(&d.kind) {
                continue;
            }
            let earlier = j < self.cur && d.done;
            if c.transparent && !earlier {
                continue;
            }
            if c.no_forward && (!earlier || d.open) {
                continue;
            }
            if self.in_generic_body && !earlier && d.kind == Kind::Generic && j != self.cur {
                continue;
            }
            if want_obj && earlier && !matches!(d.shape, Shape::Obj(_)) {
                continue;
            }
            if want_obj && !earlier {
                continue;
            }
            v.push(j);
        }
        v
    }

    fn type_args(&mut self, j: usize, c: Ctx) -> String {
        let n = self.decls[j].nparams;
        if n == 0 {
            return String::new();
        }
        if self.in_generic_body && j == self.cur {
            // a generic that mentions itself does so with its own parameters (anything else is an
            // ever-growing instantiation, which answers with one fixed diagnostic)
            return format!("<{}>", self.tparams.join(", "));
        }
        let mut n_args = n;
        if self.wild && self.chance(1, 8) {
            n_args = self.rng.below(n + 2);
        }
        if n_args == 0 {
            return if self.chance(1, 2) { String::new() } else { "<>".into() };
        }
        let args: Vec<String> = (0..n_args)
            .map(|_| if c.flat_args && !self.wild { ["string", "number", "\"a\"", "boolean", "null", "string[]", "{ a: number }"][self.rng.below(7)].to_string() } else { self.ty(Ctx { depth: c.depth.saturating_sub(1).min(2), ..c }).0 })
            .collect();
        format!("<{}>", args.join(", "))
    }

    fn named_ref(&mut self, c: Ctx) -> Option<(String, Shape)> {
        let cands = self.ref_candidates(c, false, &[Kind::Alias, Kind::Interface, Kind::Generic, Kind::Enum, Kind::Namespace]);
        if cands.is_empty() {
            return None;
        }
        let j = *self.rng.pick(&cands);
        self.note_ref(j);
        let d = self.decls[j].clone();
        let s = self.spell(j);
        match d.kind {
            Kind::Enum => {
                if self.wild && self.chance(1, 8) {
                    return Some((format!("{}.{}", s, ["Missing", "M0.x", "prototype"][self.rng.below(3)]), Shape::Other));
                }
                if !d.members.is_empty() && self.chance(1, 3) {
                    let m = self.rng.pick(&d.members).clone();
                    Some((format!("{}.{}", s, m), Shape::Other))
                } else {
                    Some((s, Shape::Other))
                }
            }
            Kind::Namespace => Some((format!("{}.Inner", s), Shape::Other)),
            Kind::Generic => {
                let a = self.type_args(j, c);
                Some((format!("{}{}", s, a), Shape::Other))
            }
            _ => Some((s, if j < self.cur { d.shape } else { Shape::Other })),
        }
    }

    fn leaf(&mut self, c: Ctx) -> (String, Shape) {
        if !self.tparams.is_empty() && self.chance(1, 3) {
            return (self.rng.pick(&self.tparams).clone(), Shape::Other);
        }
        if self.chance(1, 3) {
            if let Some(r) = self.named_ref(c) {
                return r;
            }
        }
        let pool: &[&str] = &[
            "string", "number", "boolean", "null", "undefined", "string", "number", "\"a\"", "\"b\"", "'single'", "0", "1", "-1", "1.5", "true", "false", "any", "unknown", "bigint", "Date", "void", "object", "{}",
            "never", "Uint8Array", "Float32Array", "StringFormat<\"password\">", "NumberFormat<\"age\">", "Sf", "SfChild", "Nf", "NfChild", "`${number}`", "`id_${string}`", "`${\"x\" | \"y\"}-${string}`", "\"\"", "1e3", "0x10",
            "\"__proto__\"", "\"caf\u{e9}\"", "-0", "Array<string>", "string[]", "ReadonlyArray<number>", "Record<string, number>", "Map<string, number>", "Set<string>", "Object",
        ];
        let wild_pool: &[&str] = &[
            "symbol", "unique symbol", "this", "() => void", "(x: number) => string", "new () => object", "Function", "Promise<string>", "ReturnType<typeof setTimeout>", "Uppercase<\"a\">", "Capitalize<\"ab\">", "NonNullable<string | null>",
            "Extract<\"a\" | \"b\", \"a\">", "Awaited<string>", "typeof globalThis", "typeof Missing", "Missing", "Missing.Inner", "1n", "-1n", "infer Z", "asserts this", "intrinsic", "Parameters<() => void>",
            "{ (): void }", "{ m(): void }", "{ new (): object }", "{ get x(): number }", "{ [k: number]: string }", "{ [k: `a${string}`]: 1 }", "{ [k: symbol]: 1 }", "StringFormat<string>", "StringFormat<\"a\" | \"b\">", "NumberFormat<1>",
            "StringFormatExtends<string, \"x\">", "StringFormatExtends<Sf>", "Record<string>", "Record", "Array", "Array<>", "Map<string>", "Set", "Partial", "Pick<string, \"a\">", "Omit<{ a: 1 }, 1>", "keyof 1", "string[\"length\"]", "any[\"x\"]", "never[\"x\"]",
            "unknown[]", "import(\"./missing\").X", "typeof import(\"./missing\")", "import(\"./entry\")", "RegExp", "Error", "ArrayBuffer", "Readonly<string[]>", "[a: string, b?: number]", "[...string[], number]", "readonly string[][]",
        ];
        if self.wild && self.chance(1, 24) {
            // every message of diag.rs is a place where a location is computed: spellings that ask
            // for the rarer ones (tools/diag_census.py says which the workload has never produced)
            let rare: &[&str] = &[
                "Pick<{ a: 1 }>", "Pick<{ a: 1 }, number>", "Pick<{ a: 1 }, \"a\", \"b\">", "Pick<string[], \"a\">", "Pick<{ a: 1 }, \"a\"[]>", "Omit<{ a: 1 }>", "Omit<{ a: 1 }, \"a\", \"b\">", "Omit<string, \"a\">", "Omit<{ a: 1 }, string>", "Omit<{ a: 1 }, \"a\"[]>",
                "Partial<{ a: 1 }, 2>", "Partial<>", "Partial<string>", "Required<{ a?: 1 }, 2>", "Required<>", "Required<number>", "Readonly<>", "Readonly<1, 2>", "Exclude<string>", "Exclude<>", "Exclude<1, 2, 3>", "Map<string>", "Map<>", "Set<>", "Set<1, 2>",
                "Record<number | boolean, string>", "Record<{ a: 1 }, string>", "Record<>", "Record<\"a\" | 1, string>", "Array<1, 2>", "[...string]", "[...number, string]", "[...{ a: 1 }]", "[string, ...number[], ...boolean[]]", "{ [k: string]: 1; [j: number]: 2 }", "{ [k: boolean]: 1 }", "{ [k: string] }", "{ a }", "{ a; b: 1 }",
                "{ [K in string] }", "{ [K in keyof string as `x${K}`]: 1 }", "{ [K in 1 | 2]: string }", "{ [K in { a: 1 }]: string }", "{ -readonly [K in \"a\"]-?: 1 }", "StringFormatExtends<\"a\", \"b\">", "StringFormatExtends<Nf, \"x\">", "NumberFormatExtends<Sf, \"x\">", "NumberFormatExtends<number, \"x\">",
                "NumberFormatExtends<Nf>", "NumberFormat<\"undeclared-number-format\">", "NumberFormat<string>", "typeof /re/", "typeof Sf", "Sf.x", "typeof Array", "typeof Date", "typeof parse", "typeof parse.buildParsers", "keyof typeof Missing", "(typeof Missing)[\"a\"]", "string[0]", "{ a: 1 }[\"b\"]", "{ a: 1 }[number]",
                "[1, 2][5]", "[1, 2][\"x\"]", "`${{ a: 1 }}`", "`${`a${string}`}`", "`${string[]}`", "`${Sf}`", "`${Sf}-${number}`", "import(\"./entry\").Missing", "import(\"./entry\").Sf.x", "import(\"./entry\").parse", "typeof import(\"./entry\").Sf", "typeof import(\"./entry\").default",
                "typeof import(\"./entry\").Missing.x", "Sf<string>", "Date<1>", "string<1>", "{ a: 1 } & string & 2", "keyof (string | number)", "keyof unknown", "keyof never", "keyof { [k: string]: 1 }", "unique symbol[]", "abstract new () => void", "asserts x is string", "x is string",
            ];
            return (self.rng.pick(rare).to_string(), Shape::Other);
        }
        if self.wild && self.chance(1, 12) {
            if self.chance(1, 40) {
                // spellings the parser rejects: the whole file is then unreadable
                return (["string?", "...string[]", "[string?, number]"][self.rng.below(3)].to_string(), Shape::Other);
            }
            return (self.rng.pick(wild_pool).to_string(), Shape::Other);
        }
        (self.rng.pick(pool).to_string(), Shape::Other)
    }

    fn key_name(&mut self) -> String {
        if self.chance(1, 10) {
            let k = self.rng.pick(ODD_KEYS).to_string();
            // numeric property names answer with a diagnostic: wild projects only
            if k == "1" && !self.wild { "\"1\"".to_string() } else { k }
        } else {
            self.rng.pick(KEYS).to_string()
        }
    }

    fn object_lit(&mut self, c: Ctx, tag: Option<String>) -> (String, Shape) {
        let n = self.rng.range(if tag.is_some() { 0 } else { 1 }, 4);
        let mut fields: Vec<String> = vec![];
        let mut names: Vec<String> = vec![];
        if let Some(t) = tag {
            fields.push(t);
            names.push("kind".into());
        }
        for _ in 0..n {
            let k = self.key_name();
            let plain = k.trim_matches('"').to_string();
            if names.contains(&plain) {
                continue;
            }
            let (t, _) = self.ty(c.guarded());
            let opt = if self.chance(1, 4) { "?" } else { "" };
            let ro = if self.chance(1, 8) { "readonly " } else { "" };
            let doc = if self.chance(1, 6) { format!("/** about {} */ ", plain.replace("*/", "")) } else { String::new() };
            fields.push(format!("{}{}{}{}: {}", doc, ro, k, opt, t));
            names.push(plain);
        }
        let mut rest = false;
        if self.chance(1, 10) {
            let (t, _) = self.ty(c.guarded());
            fields.push(format!("[key: string]: {}", t));
            rest = true;
        }
        let sep = if self.chance(1, 4) { ", " } else { "; " };
        // (Pick / Partial ... over an object with an index signature answer with a diagnostic)
        (format!("{{ {} }}", fields.join(sep)), if rest && !self.wild { Shape::Other } else { Shape::Obj(names) })
    }

    fn disc_union(&mut self, c: Ctx) -> (String, Shape) {
        let n = self.rng.range(2, 4);
        let style = self.rng.below(4);
        let mut members = vec![];
        for m in 0..n {
            let tag = match style {
                0 => format!("kind: \"k{}\"", m),
                1 => format!("kind: {}", m),
                2 => format!("kind: {}", if m % 2 == 0 { "true" } else { "false" }),
                _ => format!("kind: \"k{}\" | \"K{}\"", m, m),
            };
            // a member is an inline object, or an intersection with an earlier object
            let (o, _) = self.object_lit(c, Some(tag));
            if self.chance(1, 6) {
                let cands = self.ref_candidates(Ctx { transparent: true, ..c }, true, &[Kind::Alias, Kind::Interface]);
                if !cands.is_empty() {
                    let j = *self.rng.pick(&cands);
                    self.note_ref(j);
                    let s = self.spell(j);
                    members.push(format!("({} & {})", s, o));
                    continue;
                }
            }
            members.push(o);
        }
        (members.join(" | "), Shape::Other)
    }

    /// an object-shaped operand for Partial / Pick / keyof ...: an earlier object-shaped
    /// declaration if there is one, an inline object otherwise
    fn obj_operand(&mut self, c: Ctx) -> (String, Vec<String>) {
        let cands = self.ref_candidates(Ctx { transparent: true, ..c }, true, &[Kind::Alias, Kind::Interface]);
        if !cands.is_empty() && !self.chance(1, 5) {
            let j = *self.rng.pick(&cands);
            self.note_ref(j);
            let s = self.spell(j);
            if let Shape::Obj(f) = self.decls[j].shape.clone() {
                return (s, f);
            }
        }
        if self.wild && self.chance(1, 4) {
            let (t, _) = self.ty(c.down());
            return (t, vec!["a".into()]);
        }
        for _ in 0..4 {
            if let (s, Shape::Obj(f)) = self.object_lit(c, None) {
                return (s, f);
            }
        }
        ("{ a: string }".into(), vec!["a".into()])
    }

    /// operands of the operators the semantic engine evaluates (conditional types, Exclude): over a
    /// declaration that is still being read they answer with "reference not found", so tame
    /// projects keep them closed
    fn sem(&self, c: Ctx) -> Ctx {
        if self.wild { Ctx { transparent: true, flat_args: true, ..c.down() } } else { c.closed() }
    }

    fn key_union(&mut self, fields: &[String]) -> String {
        let mut ks: Vec<String> = vec![];
        let n = self.rng.range(1, 2);
        for _ in 0..n {
            if fields.is_empty() || (self.wild && self.chance(1, 5)) {
                ks.push("\"zz\"".into());
            } else {
                ks.push(format!("\"{}\"", self.rng.pick(fields).replace('\\', "\\\\").replace('"', "\\\"")));
            }
        }
        ks.dedup();
        ks.join(" | ")
    }

    fn ty(&mut self, c: Ctx) -> (String, Shape) {
        if c.depth == 0 {
            return self.leaf(c);
        }
        let roll = self.rng.below(100);
        match roll {
            0..=17 => self.leaf(c),
            18..=27 => self.named_ref(c).unwrap_or_else(|| ("string".into(), Shape::Other)),
            28..=37 => {
                let n = self.rng.range(2, 3);
                let ms: Vec<String> = (0..n).map(|_| self.ty(c.down()).0).collect();
                (ms.join(" | "), Shape::Other)
            }
            38..=42 => {
                let (a, fa) = self.obj_operand(c);
                let (b, sb) = if self.chance(2, 3) { self.object_lit(c, None) } else { self.ty(c.down()) };
                let mut f = fa;
                if let Shape::Obj(fb) = &sb {
                    for k in fb {
                        if !f.contains(k) {
                            f.push(k.clone());
                        }
                    }
                }
                (format!("{} & {}", a, b), if matches!(sb, Shape::Obj(_)) { Shape::Obj(f) } else { Shape::Other })
            }
            43..=50 => {
                let (t, _) = self.ty(c.guarded());
                let s = match self.rng.below(6) {
                    0 => format!("Array<{}>", t),
                    1 => format!("ReadonlyArray<{}>", t),
                    2 => format!("readonly ({})[]", t),
                    3 => format!("({})[][]", t),
                    _ => format!("({})[]", t),
                };
                (s, Shape::Other)
            }
            51..=56 => {
                let n = self.rng.range(0, 3);
                let mut es: Vec<String> = (0..n).map(|_| self.ty(c.guarded()).0).collect();
                let mut len = n;
                match self.rng.below(6) {
                    0 => {
                        let (t, _) = self.ty(c.guarded());
                        es.push(format!("...({})[]", t));
                    }
                    1 if n > 0 && self.wild => {
                        let last = es.pop().unwrap();
                        // `(T)?` is an optional type around a parenthesised one: a diagnostic
                        if last.contains(' ') && !self.wild { es.push(last) } else if last.contains(' ') { es.push(format!("({})?", last)) } else { es.push(format!("{}?", last)) }
                    }
                    2 if n > 0 => {
                        // labelled members, some optional (wild: a required one after an optional one)
                        let first_opt = self.rng.below(n + 1);
                        let wild = self.wild;
                        let gap = wild && self.chance(1, 3);
                        es = es.iter().enumerate().map(|(i, e)| if (i >= first_opt && !(gap && i + 1 == n)) || (gap && i == 0) { format!("n{}?: {}", i, e) } else { format!("n{}: {}", i, e) }).collect();
                    }
                    _ => {}
                }
                if es.is_empty() {
                    es.push("string".into());
                    len = 1;
                }
                let ro = if self.chance(1, 6) { "readonly " } else { "" };
                (format!("{}[{}]", ro, es.join(", ")), Shape::Tuple(len))
            }
            57..=68 => self.object_lit(c, None),
            69..=72 => self.disc_union(c),
            73..=76 => {
                let (v, _) = self.ty(c.guarded());
                let s = match self.rng.below(7) {
                    0 => format!("Record<string, {}>", v),
                    1 => format!("Record<\"x\" | \"y\", {}>", v),
                    2 => format!("Map<string, {}>", v),
                    3 => format!("Set<{}>", v),
                    4 => format!("Record<number, {}>", v),
                    5 => format!("Partial<Record<\"p\" | \"q\", {}>>", v),
                    _ => format!("{{ [key: string]: {} }}", v),
                };
                (s, Shape::Other)
            }
            77..=83 => {
                // (a utility type over a declaration that is still being read answers with a diagnostic)
                let (o, f) = self.obj_operand(if self.wild { c } else { c.closed() });
                match self.rng.below(7) {
                    0 => (format!("Partial<{}>", o), Shape::Obj(f)),
                    1 => (format!("Required<{}>", o), Shape::Obj(f)),
                    2 => (format!("Readonly<{}>", o), Shape::Obj(f)),
                    3 => {
                        let k = self.key_union(&f);
                        let kept: Vec<String> = f.iter().filter(|x| k.contains(&format!("\"{}\"", x))).cloned().collect();
                        (format!("Pick<{}, {}>", o, k), Shape::Obj(kept))
                    }
                    4 => {
                        let k = self.key_union(&f);
                        let kept: Vec<String> = f.iter().filter(|x| !k.contains(&format!("\"{}\"", x))).cloned().collect();
                        (format!("Omit<{}, {}>", o, k), Shape::Obj(kept))
                    }
                    5 => (format!("keyof {}", if o.contains(' ') { format!("({})", o) } else { o }), Shape::Other),
                    _ => (format!("Partial<Pick<{}, {}>>", o, self.key_union(&f)), Shape::Other),
                }
            }
            84..=86 => {
                // Exclude: the result is a part of the first operand
                let sc = self.sem(c);
                let (a, _) = self.ty(sc);
                let b = match self.rng.below(5) {
                    0 => "null".to_string(),
                    1 => "undefined".to_string(),
                    2 => "string".to_string(),
                    3 => "null | undefined".to_string(),
                    _ => self.ty(sc).0,
                };
                (format!("Exclude<{}, {}>", a, b), Shape::Other)
            }
            87..=89 => {
                // projection: closed operands only
                let cc = c.closed();
                let (o, f) = self.obj_operand(cc);
                let k = self.key_union(&f);
                let o = if o.contains(' ') { format!("({})", o) } else { o };
                match self.rng.below(4) {
                    0 => (format!("{}[{}]", o, k), Shape::Other),
                    1 => (format!("{}[keyof {}]", o, o), Shape::Other),
                    2 => (format!("{{ [K in keyof {}]: {}[K] }}", o, o), Shape::Obj(f)),
                    _ => (format!("{{ [K in keyof {}]?: {}[K] | null }}", o, o), Shape::Obj(f)),
                }
            }
            90..=92 => {
                // conditional: operands transparent (they are compared, not kept), branches keep `c`
                let cc = self.sem(c);
                let (a, _) = self.ty(cc);
                let (b, _) = self.ty(cc);
                let (x, _) = self.ty(Ctx { transparent: true, ..c.down() });
                let (y, _) = self.ty(Ctx { transparent: true, ..c.down() });
                if self.wild && self.chance(1, 6) {
                    let (o, _) = self.obj_operand(c.closed());
                    return (format!("{} extends {{ a: infer U }} ? U : {}", o, y), Shape::Other);
                }
                (format!("{} extends {} ? {} : {}", wrap(&a), wrap(&b), wrap(&x), wrap(&y)), Shape::Other)
            }
            93..=94 => {
                let (v, _) = self.ty(c.guarded());
                let keys = ["\"x\" | \"y\"", "\"only\"", "\"a\" | \"b\" | \"c\"", "`k${\"a\" | \"b\"}`", "`k${1 | 2}`"][self.rng.below(if self.wild { 5 } else { 4 })];
                let m = ["", "?", "-?", "+?"][self.rng.below(if self.wild { 4 } else { 2 })];
                let ro = ["", "readonly ", "-readonly "][self.rng.below(if self.wild { 3 } else { 2 })];
                (format!("{{ {}[K in {}]{}: {} }}", ro, keys, m, v), Shape::Other)
            }
            95..=96 => {
                // typeof of a constant
                let cands = self.ref_candidates(Ctx { transparent: true, ..c }, false, &[Kind::Const]);
                if cands.is_empty() {
                    return self.leaf(c);
                }
                let j = *self.rng.pick(&cands);
                self.note_ref(j);
                let s = self.spell(j);
                let d = self.decls[j].clone();
                match self.rng.below(4) {
                    0 if !d.members.is_empty() => (format!("(typeof {})[\"{}\"]", s, self.rng.pick(&d.members)), Shape::Other),
                    1 => (format!("keyof typeof {}", s), Shape::Other),
                    2 if !d.members.is_empty() => (format!("typeof {}.{}", s, self.rng.pick(&d.members)), Shape::Other),
                    _ => (format!("typeof {}", s), Shape::Other),
                }
            }
            97 => {
                let parts = ["${string}", "${number}", "${\"a\" | \"b\"}", "-", "/", ".", "x", "(", "[", "\\\\", "${boolean}", "${1 | 2}", "${bigint}", "${null}"];
                let parts = if self.wild { &parts[..] } else { &parts[..10] };
                let n = self.rng.range(1, 4);
                let s: Vec<&str> = (0..n).map(|_| *self.rng.pick(&parts)).collect();
                (format!("`{}`", s.join("")), Shape::Other)
            }
            _ => {
                let (t, s) = self.ty(c.down());
                (format!("({})", t), s)
            }
        }
    }

    fn value(&mut self, depth: usize, keys: &mut Vec<String>, top: bool) -> String {
        let earlier_consts: Vec<usize> = (0..self.cur).filter(|j| self.decls[*j].kind == Kind::Const && self.decls[*j].file == self.cur_file && self.decls[*j].done).collect();
        let enums: Vec<usize> = (0..self.cur).filter(|j| self.decls[*j].kind == Kind::Enum && self.decls[*j].file == self.cur_file && self.decls[*j].done).collect();
        if depth == 0 || (!top && self.chance(1, 2)) {
            // (beff evaluates literals only: arithmetic, unary minus, undefined and substitutions answer with a diagnostic)
            let lits = ["\"s\"", "'t'", "1", "0.5", "true", "false", "null", "`tpl`", "\"\"", "0", "undefined", "`a${1}b`", "1 + 2", "\"a\" + \"b\"", "2 ** 3", "1 << 4", "-2", "-(1)"];
            let lits = if self.wild { &lits[..] } else { &lits[..10] };
            if !enums.is_empty() && self.chance(1, 5) {
                let d = self.decls[*self.rng.pick(&enums)].clone();
                if !d.members.is_empty() {
                    return format!("{}.{}", d.name, self.rng.pick(&d.members));
                }
            }
            if !earlier_consts.is_empty() && self.chance(1, 5) {
                let d = self.decls[*self.rng.pick(&earlier_consts)].clone();
                if !d.members.is_empty() && self.chance(1, 2) {
                    return format!("{}.{}", d.name, self.rng.pick(&d.members));
                }
                return d.name;
            }
            if self.wild && self.chance(1, 5) {
                return ["1n", "/re/g", "new Date()", "Symbol()", "f()", "(() => 1)()", "x ? 1 : 2", "[1][0]", "Missing.x", "class {}", "function () {}", "await 1", "this", "1 as number", "<any>1", "void 0", "typeof 1", "!true", "~1", "1 / 0", "5 % 0"][self.rng.below(21)].to_string();
            }
            if self.wild && self.chance(1, 10) {
                return "() => 1".into();
            }
            return self.rng.pick(&lits).to_string();
        }
        if top || self.chance(2, 3) {
            let n = self.rng.range(1, 4);
            let mut props = vec![];
            for _ in 0..n {
                let k = self.rng.pick(KEYS).to_string();
                if keys.contains(&k) && top {
                    continue;
                }
                let mut inner = vec![];
                let v = self.value(depth - 1, &mut inner, false);
                if top {
                    keys.push(k.clone());
                }
                let kk = if self.chance(1, 8) { format!("\"{}\"", k) } else { k };
                props.push(format!("{}: {}", kk, v));
            }
            if !earlier_consts.is_empty() && self.chance(1, 6) {
                let d = self.decls[*self.rng.pick(&earlier_consts)].clone();
                if self.chance(1, 2) {
                    props.push(format!("...{}", d.name));
                } else {
                    props.push(d.name.clone());
                    if top {
                        keys.push(d.name);
                    }
                }
            }
            if self.wild && self.chance(1, 6) {
                props.push(["[\"computed\"]: 1", "1: \"num\"", "get g() { return 1 }", "m() {}", "1n: 2", "...[1, 2]", "...null"][self.rng.below(7)].to_string());
            }
            format!("{{ {} }}", props.join(", "))
        } else {
            let n = self.rng.range(0, 3);
            let mut es: Vec<String> = (0..n).map(|_| { let mut k = vec![]; self.value(depth - 1, &mut k, false) }).collect();
            if self.chance(1, 6) {
                es.push("...[1, \"two\"]".into());
            }
            format!("[{}]", es.join(", "))
        }
    }
}

fn wrap(s: &str) -> String {
    if s.contains(" extends ") || s.contains(" | ") || s.contains(" & ") || s.starts_with("keyof") || s.starts_with("typeof") || s.contains("=>") || s.starts_with("infer") {
        format!("({})", s)
    } else {
        s.to_string()
    }
}

pub fn grammar_project(seed: u64) -> Project {
    let mut rng = Rng::new(seed ^ 0x6AA_77A2);
    let wild = rng.chance(1, 4);
    let n_files = rng.range(1, 3);
    let n_generic = rng.below(3);
    let n_rest = rng.range(3, 9);
    let barrel = n_files >= 2 && rng.chance(1, 4);
    let mut style = vec![vec![0u8; n_files]; n_files];
    for a in 0..n_files {
        for b in 0..n_files {
            style[a][b] = match rng.below(8) {
                0 => 1,
                1 => 2,
                2 => 3,
                3 if barrel => 4,
                _ => 0,
            };
        }
    }
    let mut decls: Vec<Decl> = vec![];
    for g in 0..n_generic {
        decls.push(Decl { name: format!("G{}", g), kind: Kind::Generic, file: rng.below(n_files), nparams: rng.range(1, 2), shape: Shape::Other, open: false, members: vec![], done: false });
    }
    for i in 0..n_rest {
        let kind = match rng.below(12) {
            0 | 1 => Kind::Interface,
            2 => Kind::Enum,
            3 => Kind::Const,
            // (types inside a namespace declared in the project are not resolved: wild only)
            4 if i > 0 && wild => Kind::Namespace,
            _ => Kind::Alias,
        };
        let prefix = match kind {
            Kind::Interface => "I",
            Kind::Enum => "E",
            Kind::Const => "C",
            Kind::Namespace => "N",
            _ => "T",
        };
        decls.push(Decl { name: format!("{}{}", prefix, i), kind, file: rng.below(n_files), nparams: 0, shape: Shape::Other, open: false, members: vec![], done: false });
    }
    let mut g = G { rng, decls, cur: 0, cur_file: 0, cur_open: false, tparams: vec![], wild, n_files, style, barrel, in_generic_body: false };
    let depth = g.rng.range(2, 4);
    let mut texts: Vec<String> = vec![];
    for i in 0..g.decls.len() {
        g.cur = i;
        g.cur_file = g.decls[i].file;
        g.cur_open = false;
        g.tparams.clear();
        g.in_generic_body = false;
        let d = g.decls[i].clone();
        let top = Ctx { depth, transparent: true, no_forward: false, flat_args: false };
        let doc = if g.chance(1, 5) { format!("/** the type {} */\n", d.name) } else { String::new() };
        let text = match d.kind {
            Kind::Generic => {
                g.in_generic_body = true;
                let ps = ["A", "B"];
                let mut heads = vec![];
                for p in 0..d.nparams {
                    g.tparams.push(ps[p].to_string());
                    let h = match g.rng.below(6) {
                        0 => format!("{} extends string", ps[p]),
                        1 if p > 0 => format!("{} = number", ps[p]),
                        2 if p > 0 => format!("{} extends object = {{}}", ps[p]),
                        _ => ps[p].to_string(),
                    };
                    heads.push(h);
                }
                let (body, _) = if g.chance(2, 3) { g.object_lit(top, None) } else { g.ty(top) };
                if g.chance(1, 5) {
                    format!("{}export interface {}<{}> {}", doc, d.name, heads.join(", "), if body.starts_with('{') { body } else { format!("{{ v: {} }}", body) })
                } else {
                    format!("{}export type {}<{}> = {};", doc, d.name, heads.join(", "), body)
                }
            }
            Kind::Alias => {
                let (body, shape) = g.ty(top);
                g.decls[i].shape = shape;
                format!("{}export type {} = {};", doc, d.name, body)
            }
            Kind::Interface => {
                let mut ext = vec![];
                let mut fields: Vec<String> = vec![];
                if g.chance(1, 2) {
                    let cands = g.ref_candidates(top, true, &[Kind::Alias, Kind::Interface]);
                    for _ in 0..g.rng.range(1, 2).min(cands.len()) {
                        let j = *g.rng.pick(&cands);
                        g.note_ref(j);
                        let s = g.spell(j);
                        if !ext.contains(&s) && !s.starts_with("import(") {
                            ext.push(s);
                            if let Shape::Obj(f) = &g.decls[j].shape {
                                fields.extend(f.iter().cloned());
                            }
                        }
                    }
                }
                let (body, shape) = g.object_lit(top, None);
                if let Shape::Obj(f) = shape {
                    for k in f {
                        if !fields.contains(&k) {
                            fields.push(k);
                        }
                    }
                }
                g.decls[i].shape = Shape::Obj(fields);
                let ext_s = if ext.is_empty() { String::new() } else { format!(" extends {}", ext.join(", ")) };
                format!("{}export interface {}{} {}", doc, d.name, ext_s, body)
            }
            Kind::Enum => {
                let n = g.rng.range(1, 4);
                let mut style = g.rng.below(5);
                if (style == 1 || style == 3) && !g.wild {
                    style = 2; // members without initialiser / with computed initialisers answer with a diagnostic
                }
                let mut ms = vec![];
                let mut names = vec![];
                for m in 0..n {
                    let nm = format!("M{}", m);
                    let init = match style {
                        0 => format!(" = \"m{}\"", m),
                        1 => String::new(),
                        2 => format!(" = {}", [1, 2, 4, 8][m]),
                        3 => [" = 1 << 2", " = \"x\".length", " = M0 | 2", " = -1", " = 2 ** 3"][g.rng.below(5)].to_string(),
                        _ => if m % 2 == 0 { format!(" = \"s{}\"", m) } else { format!(" = {}", m) },
                    };
                    let init = if m == 0 && init.contains("M0") { " = 1".to_string() } else { init };
                    ms.push(format!("{}{}", nm, init));
                    names.push(nm);
                }
                g.decls[i].members = names;
                let kw = if g.wild && g.chance(1, 4) { ["const enum", "declare enum"][g.rng.below(2)] } else { "enum" };
                format!("{}export {} {} {{ {} }}", doc, kw, d.name, ms.join(", "))
            }
            Kind::Const => {
                let mut keys = vec![];
                let v = g.value(3, &mut keys, true);
                g.decls[i].members = keys;
                let suffix = match g.rng.below(5) {
                    0 => "",
                    1 if g.wild => " satisfies object",
                    _ => " as const",
                };
                format!("{}export const {} = {}{};", doc, d.name, v, suffix)
            }
            Kind::Namespace => {
                let (body, _) = g.ty(top);
                format!("export namespace {} {{ export type Inner = {}; }}", d.name, body)
            }
        };
        g.decls[i].open = g.cur_open;
        g.decls[i].done = true;
        texts.push(text);
    }
    // the files
    let mut files: BTreeMap<String, String> = BTreeMap::new();
    let mut keys: Vec<String> = vec![];
    for d in &g.decls {
        match d.kind {
            Kind::Alias | Kind::Interface | Kind::Enum => keys.push(format!("{}: {}", d.name, spell_from_entry(&g, d, None))),
            Kind::Const => keys.push(format!("{}: typeof {}", d.name, spell_from_entry(&g, d, None))),
            Kind::Namespace => keys.push(format!("{}: {}.Inner", d.name, spell_from_entry(&g, d, None))),
            Kind::Generic => {
                let args: Vec<&str> = (0..d.nparams).map(|p| ["string", "number"][p % 2]).collect();
                keys.push(format!("{}: {}", d.name, spell_from_entry(&g, d, Some(&args.join(", ")))));
            }
        }
    }
    // a few inline expressions as requested parsers
    g.cur = g.decls.len();
    g.cur_file = 0;
    g.tparams.clear();
    g.in_generic_body = false;
    for k in 0..g.rng.below(3) {
        let (t, _) = g.ty(Ctx { depth: 2, transparent: true, no_forward: false, flat_args: false });
        keys.push(format!("Inline{}: {}", k, t));
    }
    if g.wild && g.chance(1, 4) {
        keys.push(["Missing: Missing", "Dup: string; Dup: number", "\"quoted key\": string", "0: string", "Fn: () => void"][g.rng.below(5)].to_string());
    }
    for k in 0..n_files {
        let mut src = String::new();
        if k == 0 {
            src.push_str("import parse from \"./gen/parser\";\n");
            src.push_str("export type Sf = StringFormat<\"SfParent\">;\nexport type SfChild = StringFormatExtends<Sf, \"SfChild\">;\nexport type Nf = NumberFormat<\"NfParent\">;\nexport type NfChild = NumberFormatExtends<Nf, \"NfChild\">;\n");
        } else {
            src.push_str("import { Sf, SfChild, Nf, NfChild } from \"./entry\";\n");
        }
        for j in 0..n_files {
            if j == k {
                continue;
            }
            let names: Vec<&str> = g.decls.iter().filter(|d| d.file == j).map(|d| d.name.as_str()).collect();
            if names.is_empty() {
                continue;
            }
            let values: Vec<&str> = g.decls.iter().filter(|d| d.file == j && (d.kind == Kind::Const || d.kind == Kind::Enum)).map(|d| d.name.as_str()).collect();
            match g.style[k][j] {
                1 => {
                    let types: Vec<&str> = g.decls.iter().filter(|d| d.file == j && d.kind != Kind::Const && d.kind != Kind::Enum).map(|d| d.name.as_str()).collect();
                    if !types.is_empty() {
                        src.push_str(&format!("import type {{ {} }} from \"./{}\";\n", types.join(", "), mod_name(j)));
                    }
                    if !values.is_empty() {
                        src.push_str(&format!("import {{ {} }} from \"./{}\";\n", values.join(", "), mod_name(j)));
                    }
                }
                2 => src.push_str(&format!("import * as M{} from \"./{}\";\n", j, mod_name(j))),
                3 => {
                    if !values.is_empty() {
                        src.push_str(&format!("import {{ {} }} from \"./{}\";\n", values.join(", "), mod_name(j)));
                    }
                }
                4 => src.push_str(&format!("import {{ {} }} from \"./barrel\";\n", names.join(", "))),
                _ => src.push_str(&format!("import {{ {} }} from \"./{}\";\n", names.join(", "), mod_name(j))),
            }
        }
        for (i, d) in g.decls.iter().enumerate() {
            if d.file == k {
                src.push_str(&texts[i]);
                src.push('\n');
            }
        }
        if k == 0 {
            if g.wild && g.chance(1, 5) {
                // declarations that exist to be rejected
                let ns = if g.n_files >= 2 { "import * as WNs from \"./m1\";\nexport type WNsAsType = WNs;\nexport type WNsValue = typeof WNs;\nexport type WNsMissing = WNs.Missing;\nexport type WNsDeep = WNs.Missing.Deeper;\nimport WDefault from \"./m1\";\nexport type WDef = WDefault;\nimport { WNope } from \"./m1\";\nexport type WNo = WNope;\n" } else { "" };
                let pool = [
                    "export interface WExtArgs extends Array<string> { a: 1 }",
                    "export interface WExtMissing extends Missing { a: 1 }",
                    "export interface WExtQualified extends Sf.x { a: 1 }",
                    "export interface WExtPrim extends Sf { a: 1 }",
                    "export type WTypeAsValue = typeof Sf;\nexport type WIfaceAsValue = typeof WExtArgs;",
                    "export enum WEnumRef { A = \"a\" }\nexport type WEnumMember = WEnumRef.B;\nexport type WEnumDeep = WEnumRef.A.x;\nexport type WEnumType = typeof WEnumRef;",
                    "export const WRegex = /re/g;\nexport type WRegexT = typeof WRegex;\nexport const WSpread = [...1];\nexport type WSpreadT = typeof WSpread;\nexport const WSpreadObj = { ...1 };\nexport type WSpreadObjT = typeof WSpreadObj;",
                    "export const WNumKey = { 1: \"a\", [\"c\"]: 2, 3n: 4 };\nexport type WNumKeyT = typeof WNumKey;\nexport const WPriv = { a: 1 };\nexport type WMember = typeof WPriv.missing;\nexport type WMember2 = typeof WPriv.a.b;",
                    "export type WGenericNoArgs = Array;\nexport type WSelfArgs<T> = T<string>;\nexport type WRecGeneric<T> = WRecGeneric<WRecGeneric<T>>;\nexport type WUseRec = WRecGeneric<string>;",
                    "export default Missing;",
                    "declare function wfn(): void;\nexport type WFn = typeof wfn;\nclass WClass { a = 1 }\nexport type WCls = WClass;\nexport type WClsT = typeof WClass;",
                ];
                src.push_str(ns);
                for _ in 0..g.rng.range(1, 3) {
                    src.push_str(pool[g.rng.below(pool.len())]);
                    src.push('\n');
                }
                for w in ["WNsAsType", "WNsValue", "WNsMissing", "WDef", "WNo", "WExtArgs", "WExtMissing", "WTypeAsValue", "WEnumMember", "WEnumType", "WRegexT", "WSpreadT", "WNumKeyT", "WMember", "WGenericNoArgs", "WUseRec", "WFn", "WCls"] {
                    if src.contains(&format!(" {} ", w)) && g.chance(1, 2) {
                        keys.push(format!("{}: {}", w, w));
                    }
                }
            }
            let call = if g.wild && g.chance(1, 8) {
                // the call that asks for the parsers, spelled wrongly
                let inner = keys.join("; ");
                match g.rng.below(9) {
                    0 => format!("parse.buildParsers<{{ {} }}>();\nparse.buildParsers<{{ Again: string }}>();\n", inner),
                    1 => "parse.buildParsers();\n".to_string(),
                    2 => "parse.buildParsers<string>();\n".to_string(),
                    3 => format!("parse.buildParsers<{{ {} }}, string>();\n", inner),
                    4 => "parse.buildParsers<{ [k: string]: string }>();\n".to_string(),
                    5 => "parse.buildParsers<{ a(): void; b: string }>();\n".to_string(),
                    6 => "parse.buildParsers<Sf>();\n".to_string(),
                    7 => format!("parse.buildParsers<{{ {}; \"with-dash\": string; 1: number }}>();\n", inner),
                    _ => format!("const parsers = parse.buildParsers<{{ {} }}>({{ extra: true }});\n", inner),
                }
            } else {
                format!("parse.buildParsers<{{ {} }}>();\n", keys.join("; "))
            };
            src.push_str(&call);
        }
        files.insert(file_name(k), src);
    }
    if g.barrel {
        let mut b = String::new();
        for k in 0..g.n_files {
            b.push_str(&format!("export * from \"./{}\";\n", mod_name(k)));
        }
        files.insert("/p/barrel.ts".into(), b);
    }
    Project {
        id: format!("gram_{}{:08x}", if wild { "w" } else { "t" }, (seed & 0xffff_ffff) as u32),
        origin: "verif/sim/src/grammar.rs grammar_project".into(),
        origin_kind: "synthetic".into(),
        entry: "/p/entry.ts".into(),
        settings: Settings { string_formats: vec!["SfChild".into(), "SfParent".into(), "password".into()], number_formats: vec!["NfChild".into(), "NfParent".into(), "age".into()] },
        module: "esm".into(),
        files,
    }
}

fn spell_from_entry(g: &G, d: &Decl, args: Option<&str>) -> String {
    let a = args.map(|a| format!("<{}>", a)).unwrap_or_default();
    if d.file == 0 {
        return format!("{}{}", d.name, a);
    }
    match g.style[0][d.file] {
        2 => format!("M{}.{}{}", d.file, d.name, a),
        3 if d.kind != Kind::Const && d.kind != Kind::Enum => format!("import(\"./{}\").{}{}", mod_name(d.file), d.name, a),
        _ => format!("{}{}", d.name, a),
    }
}
