//! Data model: projects, explicit runs (the replay format), outcomes.
use serde::{Deserialize, Serialize};
use std::collections::BTreeMap;

#[derive(Serialize, Deserialize, Clone, Debug, PartialEq, Eq)]
pub struct Settings {
    pub string_formats: Vec<String>,
    pub number_formats: Vec<String>,
}
impl Settings {
    pub fn to_json(&self) -> String {
        serde_json::to_string(self).unwrap()
    }
}

#[derive(Serialize, Deserialize, Clone, Debug)]
pub struct Project {
    pub id: String,
    #[serde(default)]
    pub origin: String,
    #[serde(default)]
    pub origin_kind: String,
    pub entry: String,
    pub settings: Settings,
    #[serde(default = "esm")]
    pub module: String,
    pub files: BTreeMap<String, String>,
}
fn esm() -> String {
    "esm".into()
}

#[derive(Serialize, Deserialize, Clone, Debug, PartialEq, Eq)]
#[serde(tag = "op", rename_all = "snake_case")]
pub enum Op {
    /// editor: SimFs[f] = content (also creates)
    Write { f: String, content: String },
    /// editor: first half of a non-atomic save: SimFs[f] = content[..k]
    WritePrefix { f: String, content: String, k: usize },
    /// editor: removes f from SimFs
    Delete { f: String },
    /// host watch loop: c = SimFs[f] (ENOENT -> nothing); update_file_content(f, c); exec()
    Deliver { f: String },
    /// plain API call update_file_content(f, SimFs[f]) without the rebuild (ENOENT -> nothing)
    Update { f: String },
    /// plain API call with explicit content that is NOT written to SimFs first (API-only histories
    /// write through `Write` first; this op exists for replay files of minimised runs)
    Rebuild { api: String },
    FaultOn { kind: String, f: String },
    FaultOff { kind: String, f: String },
    /// rebuild through both entry points, then (if the session is synced) compare with fresh
    /// simulated processes started with the given hash-key seeds; `preregister` is used by C10
    Checkpoint {
        fresh_hash_seeds: Vec<u64>,
        /// call bundle_to_diagnostics before bundle_to_string (in the session and in the fresh process)
        #[serde(default)]
        diag_first: bool,
    },
}

#[derive(Serialize, Deserialize, Clone, Debug)]
pub struct Run {
    pub engine: String,
    pub property: String,
    #[serde(default)]
    pub root_seed: u64,
    #[serde(default)]
    pub run_index: u64,
    #[serde(default)]
    pub label: String,
    pub project: Project,
    pub session_hash_seed: u64,
    #[serde(default)]
    pub cpu_mask: String,
    /// "api": every write is followed by its delivery; "watch": seeded notification faults
    #[serde(default)]
    pub mode: String,
    pub ops: Vec<Op>,
    /// C10 only: variants to compare on the *final* SimFs of `ops` (usually ops is empty)
    #[serde(default)]
    pub variants: Vec<Variant>,
    #[serde(default)]
    pub violation_class: String,
    #[serde(default)]
    pub observed: serde_json::Value,
    /// notification faults decided by the generator that leave no operation behind
    /// (a lost notification is an absent `deliver`): counted here, informational
    #[serde(default)]
    pub gen_faults: BTreeMap<String, u64>,
}

/// content marker inside `Variant::earlier`: the file does not exist while that earlier revision is compiled
pub const ABSENT_IN_EARLIER_REVISION: &str = "\u{0}absent-in-this-earlier-revision";

#[derive(Serialize, Deserialize, Clone, Debug, PartialEq, Eq)]
pub struct Variant {
    pub hash_seed: u64,
    /// files pushed through update_file_content before the build, in this order
    pub preregister: Vec<String>,
    /// build the same thing twice in the same session and require equality as well
    #[serde(default)]
    pub repeat: bool,
    /// order of the two entry points
    #[serde(default)]
    pub diag_first: bool,
    /// build the project under another absolute root ("/p/..." -> "<root>/..."); the outputs are
    /// compared after mapping the root back (the location of a checkout is not part of the sources)
    #[serde(default)]
    pub root: Option<String>,
    /// the simulated process has compiled earlier revisions of some files before: per round a
    /// list of (file, content) that is written, pushed through update_file_content and built;
    /// afterwards the files get their real contents back (and are pushed again) and the
    /// compared build runs.  Output depends on the project contents, not on what came before.
    #[serde(default)]
    pub earlier: Vec<Vec<(String, String)>>,
    /// the process runs with a logger that takes everything (`beff -v` sets the log level to
    /// Debug): the arguments of log macros are evaluated there and nowhere else
    #[serde(default)]
    pub verbose: bool,
}

#[derive(Serialize, Deserialize, Clone, Debug, PartialEq, Eq, Default)]
pub struct Triple {
    pub code: Option<String>,
    pub emitted: Vec<String>,
    pub diag: Option<String>,
    pub panic: Option<String>,
}
impl Triple {
    pub fn digest(&self) -> serde_json::Value {
        serde_json::json!({
            "code": self.code.as_ref().map(|c| format!("{} bytes fnv={:016x}", c.len(), crate::rng::fnv64(c.as_bytes()))),
            "emitted": self.emitted,
            "diag": self.diag,
            "panic": self.panic,
        })
    }
    pub fn shape(&self) -> &'static str {
        if self.panic.is_some() {
            "panic"
        } else if self.code.is_some() {
            "code"
        } else {
            "diagnostics"
        }
    }
}

#[derive(Serialize, Deserialize, Clone, Debug)]
pub struct Violation {
    pub property: String,
    /// stable class string: the same class must persist through minimisation and on replay
    pub class: String,
    pub detail: serde_json::Value,
    pub op_index: usize,
}

#[derive(Serialize, Deserialize, Clone, Debug, Default)]
pub struct Stats {
    pub events: u64,
    pub builds: u64,
    pub fresh_builds: u64,
    pub checkpoints: u64,
    pub checkpoints_synced: u64,
    pub checkpoints_skipped_unsynced: u64,
    pub checkpoints_handed_to_c10: u64,
    pub c04_builds_checked: u64,
    pub c04_locations_checked: u64,
    pub c04_diagnostics_seen: u64,
    pub c10_comparisons: u64,
    pub c10_variants_built: u64,
    pub fired: BTreeMap<String, u64>,
    pub probes: BTreeMap<String, u64>,
    pub known_findings: BTreeMap<String, u64>,
}
impl Stats {
    pub fn fire(&mut self, k: &str) {
        *self.fired.entry(k.to_string()).or_insert(0) += 1;
    }
    pub fn probe(&mut self, k: &str) {
        *self.probes.entry(k.to_string()).or_insert(0) += 1;
    }
    pub fn merge(&mut self, o: &Stats) {
        self.events += o.events;
        self.builds += o.builds;
        self.fresh_builds += o.fresh_builds;
        self.checkpoints += o.checkpoints;
        self.checkpoints_synced += o.checkpoints_synced;
        self.checkpoints_skipped_unsynced += o.checkpoints_skipped_unsynced;
        self.checkpoints_handed_to_c10 += o.checkpoints_handed_to_c10;
        self.c04_builds_checked += o.c04_builds_checked;
        self.c04_locations_checked += o.c04_locations_checked;
        self.c04_diagnostics_seen += o.c04_diagnostics_seen;
        self.c10_comparisons += o.c10_comparisons;
        self.c10_variants_built += o.c10_variants_built;
        for (k, v) in &o.fired {
            *self.fired.entry(k.clone()).or_insert(0) += v;
        }
        for (k, v) in &o.probes {
            *self.probes.entry(k.clone()).or_insert(0) += v;
        }
        for (k, v) in &o.known_findings {
            *self.known_findings.entry(k.clone()).or_insert(0) += v;
        }
    }
}

#[derive(Serialize, Deserialize, Clone, Debug, Default)]
pub struct Outcome {
    pub violations: Vec<Violation>,
    pub stats: Stats,
    /// hash over every operation and every output, for the determinism self-test
    pub log_hash: u64,
    /// distinct-state measure: hashes of (project, SimFs, session view, cache set) at checkpoints
    pub state_hashes: Vec<u64>,
    /// hash of the op-kind sequence with content hashes
    pub history_hash: u64,
    /// does the history contain a cache-replacing update and an evaluated checkpoint
    pub nontrivial: bool,
    /// distinct successfully emitted modules of fresh builds, kept only when asked (Node leg of C04)
    #[serde(default)]
    pub codes: Vec<CodeItem>,
    /// distinct SimFs hashes built
    #[serde(default)]
    pub built_fs_hashes: Vec<u64>,
    /// known-finding lines (already formatted, de-duplicated by the coordinator)
    #[serde(default)]
    pub known_finding_lines: Vec<String>,
    #[serde(default)]
    pub trace: Vec<String>,
    /// largest CPU time one API call consumed in this run (ms)
    #[serde(default)]
    pub max_call_cpu_ms: u64,
}

#[derive(Serialize, Deserialize, Clone, Debug)]
pub struct CodeItem {
    pub hash: u64,
    pub code: String,
    /// keys of the buildParsers<{...}> type literal in the entry file, when it is a literal
    pub expected_keys: Option<Vec<String>>,
    pub string_formats: Vec<String>,
    pub number_formats: Vec<String>,
    /// the file system it was built from contains a constructor-free alias cycle (KF-C04-4)
    #[serde(default)]
    pub alias_cycle: bool,
}
