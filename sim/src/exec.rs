//! Executing an explicit run against the real session code and evaluating the invariants.
//! Execution is a pure function of the `Run` (and of the code under test).
use crate::host::{resolve_in, seed_this_thread_hash_keys, Fs, HostState, Shared};
use crate::model::*;
use crate::rng::{fnv64, fnv64_more};
use crate::session::{self, fresh_process, FreshResult};
use serde_json::json;
use std::cell::RefCell;
use std::collections::{BTreeMap, BTreeSet};
use std::io::Write;
use std::rc::Rc;

pub const SLOW_CALL_CPU_MS: u64 = 3000;

#[derive(Clone, Default)]
pub struct ExecOpts {
    /// print `op <i>` to stdout (flushed) before each operation: used to localise stalls
    pub progress: bool,
    /// keep distinct successfully emitted modules (for the Node import leg of C04)
    pub collect_codes: bool,
    /// signatures of open known findings (from /verif/known_findings.json)
    pub open_findings: Vec<KnownFinding>,
    /// collect a human-readable trace of the run (samples in evidence files)
    pub trace: bool,
    /// send each distinct module only once per process (workers); off in the coordinator
    pub code_dedup: bool,
    /// print `B` (flushed) before each operation: the coordinator's watchdog counts CPU time since the last sign of
    /// life, and a long history over a project with very large files legitimately takes longer than the limit as a
    /// whole (144 steps, 205 builds, 23 s) while no single operation does
    pub heartbeat: bool,
}

#[derive(serde::Serialize, serde::Deserialize, Clone, Debug)]
pub struct KnownFinding {
    pub id: String,
    pub property: String,
    pub status: String,
    #[serde(default)]
    pub commit: Option<String>,
    pub signature: serde_json::Value,
    pub what_fails: String,
}

impl ExecOpts {
    fn open(&self, property: &str, kind: &str) -> Option<&KnownFinding> {
        self.open_findings.iter().find(|k| k.status == "open" && k.property == property && k.signature.get("kind").and_then(|v| v.as_str()) == Some(kind))
    }
    /// open finding for a C04 panic / class with this exact class string
    fn open_class(&self, property: &str, class: &str) -> Option<&KnownFinding> {
        self.open_findings.iter().find(|k| {
            k.status == "open" && k.property == property && k.signature.get("kind").and_then(|v| v.as_str()) == Some("class") && k.signature.get("class").and_then(|v| v.as_str()).map(|c| class.starts_with(c)).unwrap_or(false)
        })
    }
}

pub fn execute(run: &Run, opts: &ExecOpts) -> Outcome {
    let run = run.clone();
    let opts = opts.clone();
    std::thread::Builder::new()
        .stack_size(session::STACK_BYTES)
        .spawn(move || {
            if run.property == "C10" && !run.variants.is_empty() {
                execute_c10(&run, &opts)
            } else {
                execute_history(&run, &opts)
            }
        })
        .expect("spawn session thread")
        .join()
        .expect("session thread must not die")
}

struct Ctx<'a> {
    run: &'a Run,
    opts: &'a ExecOpts,
    out: Outcome,
    log: u64,
    trace: Vec<String>,
    touched: BTreeSet<String>,
    replaced_cached: bool,
    evaluated_checkpoint: bool,
}

impl<'a> Ctx<'a> {
    fn log_bytes(&mut self, b: &[u8]) {
        self.log = fnv64_more(self.log, b);
        self.log = fnv64_more(self.log, &[0xff]);
    }
    fn log_triple(&mut self, t: &Triple) {
        let s = serde_json::to_string(t).unwrap();
        self.log_bytes(s.as_bytes());
    }
    /// "terminates promptly": one API call that used more than three seconds of CPU. The class says
    /// whether the probe in beff-core attributes the time to the branching emptiness decision of
    /// the semantic engine (open known finding KF-C04-26) or not. Returns true for a slow call.
    fn slow_call(&mut self, who: &str, cpu_ms: u64, probe: (u64, u64), op_index: usize) -> bool {
        if cpu_ms <= SLOW_CALL_CPU_MS {
            return false;
        }
        let class = if session::probe_says_exponential(probe) { "exponential-emptiness-decision:slow-build" } else { "slow-build:one-call-used-more-than-3s-cpu" };
        self.violate("C04", class.into(), json!({"who": who, "cpu_ms": cpu_ms, "emptiness_steps": probe.0, "largest_number_of_negated_atoms": probe.1}), op_index);
        true
    }
    fn violate(&mut self, property: &str, class: String, detail: serde_json::Value, op_index: usize) {
        // known finding by exact class?
        if let Some(k) = self.opts.open_class(property, &class) {
            let line = format!("KNOWN-FINDING: property={} {} [{}]", property, k.what_fails, k.id);
            *self.out.stats.known_findings.entry(k.id.clone()).or_insert(0) += 1;
            if !self.out.known_finding_lines.contains(&line) {
                self.out.known_finding_lines.push(line);
            }
            return;
        }
        if self.out.violations.iter().any(|v| v.property == property && v.class == class) {
            return;
        }
        self.out.violations.push(Violation { property: property.to_string(), class, detail, op_index });
    }
}

fn fs_hash(fs: &Fs) -> u64 {
    let mut h = 0xcbf29ce484222325u64;
    for (k, v) in fs {
        h = fnv64_more(h, k.as_bytes());
        h = fnv64_more(h, &[0]);
        h = fnv64_more(h, v.as_bytes());
        h = fnv64_more(h, &[1]);
    }
    h
}

fn panic_class(p: &str) -> String {
    // "bundle_to_string: <msg> @ <loc>"  ->  class keyed by location and the start of the message
    let (api_msg, loc) = match p.rfind(" @ ") {
        Some(i) => (&p[..i], &p[i + 3..]),
        None => (p, "?"),
    };
    let msg = api_msg.splitn(2, ": ").nth(1).unwrap_or(api_msg);
    let msg: String = msg.chars().take(60).collect();
    format!("panic:{}:{}", loc, msg)
}

/// I-C04 on one build result. `truth` is the file system the build is known to have seen
/// (fresh builds, synced session states); None switches the location clauses off.
/// Lines of a text (without their terminators) under a given set of line terminators, longest
/// match first.
fn split_lines<'a>(content: &'a str, terms: &[&str]) -> Vec<&'a str> {
    let mut out = vec![];
    let mut start = 0;
    let mut i = 0;
    while i < content.len() {
        let rest = &content[i..];
        if let Some(t) = terms.iter().find(|t| rest.starts_with(**t)) {
            out.push(&content[start..i]);
            i += t.len();
            start = i;
        } else {
            i += rest.chars().next().map(|c| c.len_utf8()).unwrap_or(1);
        }
    }
    out.push(&content[start..]);
    out
}

fn check_c04(cx: &mut Ctx, t: &Triple, truth: Option<(&Fs, &BTreeSet<String>)>, who: &str, op_index: usize) {
    cx.out.stats.c04_builds_checked += 1;
    if let Some(p) = &t.panic {
        cx.violate("C04", panic_class(p), json!({"who": who, "panic": p}), op_index);
        return;
    }
    let parse = |s: &str| -> Option<Vec<serde_json::Value>> {
        let v: serde_json::Value = serde_json::from_str(s).ok()?;
        v.get("diagnostics")?.as_array().cloned()
    };
    let mut all: Vec<serde_json::Value> = vec![];
    match (&t.code, t.emitted.len()) {
        (Some(_), 0) => {}
        (Some(_), _) => cx.violate("C04", "code-and-diagnostics".into(), json!({"who": who, "emitted": t.emitted}), op_index),
        (None, 0) => cx.violate("C04", "no-code-no-diagnostic".into(), json!({"who": who}), op_index),
        (None, _) => {
            for e in &t.emitted {
                match parse(e) {
                    Some(d) if !d.is_empty() => all.extend(d),
                    _ => cx.violate("C04", "empty-or-malformed-emitted-diagnostics".into(), json!({"who": who, "emitted": e}), op_index),
                }
            }
        }
    }
    if let Some(d) = &t.diag {
        match parse(d) {
            None => cx.violate("C04", "malformed-diagnostics-json".into(), json!({"who": who, "diag": d}), op_index),
            Some(ds) => {
                if t.code.is_some() && !ds.is_empty() {
                    cx.violate("C04", "code-but-diagnostics-api-nonempty".into(), json!({"who": who, "diag": d}), op_index);
                }
                if t.code.is_none() && ds.is_empty() {
                    cx.violate("C04", "no-code-but-diagnostics-api-empty".into(), json!({"who": who}), op_index);
                }
                all.extend(ds);
            }
        }
    }
    cx.out.stats.c04_diagnostics_seen += all.len() as u64;
    let mut files_with_diag = BTreeSet::new();
    for d in &all {
        if let Some(k) = d.get("KnownFile") {
            files_with_diag.insert(k["file_name"].as_str().unwrap_or("").to_string());
        }
    }
    if files_with_diag.len() >= 2 {
        cx.out.stats.probe("diagnostics_in_2_or_more_files");
    }
    let Some((fs, reachable)) = truth else { return };
    for d in &all {
        cx.out.stats.c04_locations_checked += 1;
        if let Some(k) = d.get("KnownFile") {
            let file = k["file_name"].as_str().unwrap_or("");
            let g = |n: &str| k[n].as_u64().unwrap_or(u64::MAX) as usize;
            let (l0, c0, l1, c1) = (g("line_lo"), g("col_lo"), g("line_hi"), g("col_hi"));
            let Some(content) = fs.get(file) else {
                cx.violate("C04", "diagnostic-names-file-not-in-project".into(), json!({"who": who, "diagnostic": d}), op_index);
                continue;
            };
            // "inside the file" under some usual notion of a line: LF only (what most tools count),
            // or every ECMAScript line terminator (CR, LF, CRLF, and with them LS / PS), which is
            // what the parser's own source map counts; a range is bad when no model admits it
            let models: [&[&str]; 3] = [&["\n"], &["\r\n", "\n", "\r"], &["\r\n", "\n", "\r", "\u{2028}", "\u{2029}"]];
            let mut bad = None;
            let mut n_lines = 0;
            for terms in models {
                let lines = split_lines(content, terms);
                n_lines = lines.len();
                let ok_line = |l: usize| l >= 1 && l <= lines.len();
                bad = if !ok_line(l0) || !ok_line(l1) {
                    Some("line-out-of-file")
                } else if (l0, c0) > (l1, c1) {
                    Some("range-reversed")
                } else if c0 > lines[l0 - 1].chars().count() || c1 > lines[l1 - 1].chars().count() {
                    Some("column-out-of-line")
                } else {
                    None
                };
                if bad.is_none() {
                    break;
                }
            }
            if let Some(b) = bad {
                cx.violate("C04", format!("bad-location:{}", b), json!({"who": who, "diagnostic": d, "file_lines": n_lines}), op_index);
            }
        } else if let Some(u) = d.get("UnknownFile") {
            let file = u["current_file"].as_str().unwrap_or("");
            if !(file == cx.run.project.entry || fs.contains_key(file) || reachable.contains(file)) {
                cx.violate("C04", "unlocated-diagnostic-names-foreign-file".into(), json!({"who": who, "diagnostic": d}), op_index);
            }
        } else {
            cx.violate("C04", "malformed-diagnostic".into(), json!({"who": who, "diagnostic": d}), op_index);
        }
    }
}

fn stale_resolutions(st: &HostState) -> Vec<(String, String)> {
    st.resolve_log
        .iter()
        .filter(|((cur, spec), res)| st.fs.contains_key(cur) && resolve_in(&st.fs, cur, spec) != **res)
        .map(|((c, s), _)| (c.clone(), s.clone()))
        .collect()
}

fn synced(st: &HostState, touched: &BTreeSet<String>, entry: &str) -> Result<(), String> {
    if !st.read_fault.is_empty() || !st.resolve_fault.is_empty() {
        return Err("fault active".into());
    }
    if let Some(f) = st.resolve_fault_tainted.iter().next() {
        return Err(format!("{} was parsed under a resolve fault", f));
    }
    for (f, view) in &st.session_view {
        // A module the session holds of a file that has been DELETED since is not in the way, unless it is the entry
        // point: the only roads to it are import resolutions, the session re-validates the recorded ones before every
        // build (KF-C14-1 repaired) and asks the host for the others (`import("./x")` types) during the build, and the
        // host no longer finds the file. (Seeded change c14o-1 answered such a question from the cache; with the old
        // rule - a deleted file the session has seen keeps the state unsynced for good - nothing was compared.)
        if view.is_some() && !st.fs.contains_key(f) && f != entry {
            continue;
        }
        if view.as_ref() != st.fs.get(f) {
            return Err(format!("session's knowledge of {} is out of date", f));
        }
    }
    // (a file the session holds nothing of - never read, or only ever asked for in vain - does not
    // stand in the way: the session has to ask for it when a build needs it)
    let _ = touched;
    Ok(())
}

fn execute_history(run: &Run, opts: &ExecOpts) -> Outcome {
    seed_this_thread_hash_keys(run.session_hash_seed);
    let shared: Shared = Rc::new(RefCell::new(crate::host::new_host_state(run.project.files.clone())));
    session::install_host(&shared);
    let entry = run.project.entry.clone();
    let settings = run.project.settings.to_json();
    let mut cx = Ctx { run, opts, out: Outcome::default(), log: 0xcbf29ce484222325, trace: vec![], touched: BTreeSet::new(), replaced_cached: false, evaluated_checkpoint: false };
    let mut hist = 0xcbf29ce484222325u64;
    let mut torn_open: BTreeMap<String, bool> = BTreeMap::new();
    let mut dead = false;
    let stdout = std::io::stdout();
    {
        let saves = run.ops.iter().filter(|o| matches!(o, Op::Write { .. } | Op::Delete { .. })).count();
        if saves > 14 {
            cx.out.stats.probe("history_with_more_than_14_saves");
        }
        if saves > 40 {
            cx.out.stats.probe("history_with_more_than_40_saves");
        }
    }

    'ops: for (i, op) in run.ops.iter().enumerate() {
        if opts.heartbeat {
            let mut o = stdout.lock();
            let _ = writeln!(o, "B op");
            let _ = o.flush();
        }
        if opts.progress {
            let mut o = stdout.lock();
            let _ = writeln!(o, "op {}", i);
            let _ = o.flush();
        }
        cx.out.stats.events += 1;
        let opj = serde_json::to_string(op).unwrap();
        cx.log_bytes(opj.as_bytes());
        hist = fnv64_more(hist, &fnv64(opj.as_bytes()).to_le_bytes());
        if opts.trace {
            cx.trace.push(short_op(op));
        }
        match op {
            Op::Write { f, content } => {
                let mut st = shared.borrow_mut();
                if !st.fs.contains_key(f) {
                    cx.out.stats.fire("file_created");
                }
                if !crate::edits::parses(f, content) {
                    cx.out.stats.fire("broken_save");
                }
                st.fs.insert(f.clone(), content.clone());
                cx.touched.insert(f.clone());
                torn_open.remove(f);
            }
            Op::WritePrefix { f, content, k } => {
                let k = crate::edits::char_boundary_floor(content, *k);
                let mut st = shared.borrow_mut();
                st.fs.insert(f.clone(), content[..k].to_string());
                cx.touched.insert(f.clone());
                torn_open.insert(f.clone(), true);
            }
            Op::Delete { f } => {
                let mut st = shared.borrow_mut();
                if st.fs.remove(f).is_some() {
                    cx.out.stats.fire("file_deleted");
                }
                cx.touched.insert(f.clone());
            }
            Op::Deliver { f } | Op::Update { f } => {
                let content = shared.borrow().fs.get(f).cloned();
                match content {
                    None => {
                        cx.out.stats.probe("notification_for_missing_file");
                    }
                    Some(c) => {
                        if torn_open.contains_key(f) {
                            cx.out.stats.fire("torn_read");
                        }
                        {
                            let st = shared.borrow();
                            if let Some(Some(prev)) = st.session_view.get(f) {
                                if *prev != c {
                                    cx.replaced_cached = true;
                                    cx.out.stats.probe("cached_module_replaced");
                                } else {
                                    cx.out.stats.probe("redelivery_same_content");
                                }
                            }
                        }
                        if !crate::edits::parses(f, &c) {
                            cx.out.stats.probe("update_failed_to_parse");
                        }
                        if let Err(p) = session::update(&shared, f, &c) {
                            let p = format!("update_file_content: {}", p);
                            cx.log_bytes(p.as_bytes());
                            cx.violate("C04", panic_class(&p), json!({"who": "session", "panic": p}), i);
                            dead = true;
                        } else if matches!(op, Op::Deliver { .. }) {
                            cx.out.stats.builds += 1;
                            let (code, emitted, panic) = session::build_string(&shared, &entry, &settings);
                            let t = Triple { code, emitted, diag: None, panic: panic.map(|p| format!("bundle_to_string: {}", p)) };
                            cx.log_triple(&t);
                            note_build(&mut cx, &shared, &t);
                            check_c04(&mut cx, &t, None, "session", i);
                            dead = t.panic.is_some();
                        }
                    }
                }
            }
            Op::Rebuild { api } => {
                cx.out.stats.builds += 1;
                let t = if api == "diagnostics" {
                    let (d, p) = session::build_diag(&shared, &entry, &settings);
                    // only the diagnostics document is known; mark code as unknown by checking less
                    let t = Triple { code: None, emitted: vec![], diag: d, panic: p.map(|p| format!("bundle_to_diagnostics: {}", p)) };
                    cx.log_triple(&t);
                    if let Some(p) = &t.panic {
                        cx.violate("C04", panic_class(p), json!({"who": "session", "panic": p}), i);
                    }
                    t
                } else {
                    let (code, emitted, panic) = session::build_string(&shared, &entry, &settings);
                    let t = Triple { code, emitted, diag: None, panic: panic.map(|p| format!("bundle_to_string: {}", p)) };
                    cx.log_triple(&t);
                    note_build(&mut cx, &shared, &t);
                    check_c04(&mut cx, &t, None, "session", i);
                    t
                };
                dead = t.panic.is_some();
            }
            Op::FaultOn { kind, f } => {
                let mut st = shared.borrow_mut();
                if kind == "read_error" {
                    st.read_fault.insert(f.clone());
                } else {
                    st.resolve_fault.insert(f.clone());
                }
            }
            Op::FaultOff { kind, f } => {
                let mut st = shared.borrow_mut();
                if kind == "read_error" {
                    st.read_fault.remove(f);
                } else {
                    st.resolve_fault.remove(f);
                }
            }
            Op::Checkpoint { fresh_hash_seeds, diag_first } => {
                cx.out.stats.checkpoints += 1;
                cx.out.stats.builds += 2;
                let ts = session::build_triple(&shared, &entry, &settings, *diag_first);
                cx.log_triple(&ts);
                note_build(&mut cx, &shared, &ts);
                if *diag_first {
                    cx.out.stats.probe("checkpoint_diagnostics_entry_point_first");
                }
                let sync = synced(&shared.borrow(), &cx.touched, &entry);
                if sync.is_ok() && shared.borrow().session_view.iter().any(|(f, v)| v.is_some() && !shared.borrow().fs.contains_key(f)) {
                    cx.out.stats.probe("checkpoint_compared_while_the_session_holds_a_module_of_a_deleted_file");
                }
                if opts.trace {
                    cx.trace.push(format!("  session -> {} ; synced: {}", ts.shape(), match &sync { Ok(()) => "yes".to_string(), Err(e) => format!("no ({})", e) }));
                }
                if let Err(_why) = &sync {
                    cx.out.stats.checkpoints_skipped_unsynced += 1;
                    check_c04(&mut cx, &ts, None, "session", i);
                    if ts.panic.is_some() {
                        dead = true;
                    }
                } else {
                    let fs_now = shared.borrow().fs.clone();
                    {
                        let st = shared.borrow();
                        let mut h = fs_hash(&st.fs);
                        h = fnv64_more(h, run.project.id.as_bytes());
                        for (k, v) in &st.session_view {
                            h = fnv64_more(h, k.as_bytes());
                            h = fnv64_more(h, &[v.is_some() as u8]);
                        }
                        cx.out.state_hashes.push(h);
                    }
                    let seeds: Vec<u64> = if fresh_hash_seeds.is_empty() { vec![run.session_hash_seed] } else { fresh_hash_seeds.clone() };
                    let mut fresh: Vec<FreshResult> = vec![];
                    for s in &seeds {
                        cx.out.stats.fresh_builds += 2;
                        let v = Variant { hash_seed: *s, preregister: vec![], repeat: false, diag_first: *diag_first, root: None, earlier: vec![], verbose: false };
                        let fr = fresh_process(&fs_now, &entry, &run.project.settings, &v);
                        cx.log_triple(&fr.first);
                        // vacuity guard of the coordinator: a compiler that always says no is total, deterministic
                        // and history-free, and nothing would have been decided
                        cx.out.stats.probe(if fr.first.code.is_some() { "fresh_build_gave_code" } else { "fresh_build_gave_no_code" });
                        cx.out.max_call_cpu_ms = cx.out.max_call_cpu_ms.max(fr.max_call_cpu_ms);
                        let slow = cx.slow_call("fresh", fr.max_call_cpu_ms, fr.max_call_probe, i);
                        fresh.push(fr);
                        if slow {
                            // one build of this file system took seconds: the others would too
                            cx.out.stats.probe("run_ended_by_slow_build");
                            break 'ops;
                        }
                    }
                    // C04 quantifies over where the project lives as well: every third checkpoint of a
                    // C04 run builds the files once more under another checkout root (deep, with
                    // multi-byte characters; the diagnostics quote absolute file names)
                    if run.property == "C04" && (seeds[0] ^ i as u64) % 3 == 0 {
                        cx.out.stats.fresh_builds += 2;
                        let v = Variant { hash_seed: seeds[0], preregister: vec![], repeat: false, diag_first: *diag_first, root: Some(crate::gen::checkout_root((seeds[0] >> 7) / 5 * 5 + 3)), earlier: vec![], verbose: false };
                        let fr = fresh_process(&fs_now, &entry, &run.project.settings, &v);
                        cx.out.stats.probe("c04_build_under_another_checkout_root");
                        check_c04(&mut cx, &fr.first, None, "fresh-relocated", i);
                    }
                    let reach: BTreeSet<String> = fresh[0].resolved_to.iter().cloned().collect();
                    check_c04(&mut cx, &fresh[0].first, Some((&fs_now, &reach)), "fresh", i);
                    // locations are checked on the fresh build only: where the session agrees with it
                    // that covers the session too, and where it does not that is I-C14's business
                    check_c04(&mut cx, &ts, None, "session", i);
                    note_fs_built(&mut cx, &fs_now, &fresh[0].first);
                    if fresh.iter().any(|f| f.first != fresh[0].first) {
                        cx.out.stats.checkpoints_handed_to_c10 += 1;
                        if run.property == "C10" {
                            let j = fresh.iter().position(|f| f.first != fresh[0].first).unwrap();
                            cx.violate("C10", "differ:hash-keys".into(), json!({"a": {"hash_seed": seeds[0], "out": fresh[0].first.digest()}, "b": {"hash_seed": seeds[j], "out": fresh[j].first.digest()}}), i);
                        }
                    } else {
                        cx.out.stats.checkpoints_synced += 1;
                        cx.evaluated_checkpoint = true;
                        let fr = &fresh[0].first;
                        if opts.trace {
                            cx.trace.push(format!("  fresh   -> {} ; equal: {}", fr.shape(), *fr == ts));
                        }
                        if *fr != ts {
                            // attribute to the open known finding, or report
                            let stale0 = stale_resolutions(&shared.borrow());
                            let mut attributed = false;
                            if !stale0.is_empty() && opts.open("C14", "stale-parse-time-resolution").is_some() && ts.panic.is_none() {
                                let mut rounds = 0;
                                loop {
                                    let stale = stale_resolutions(&shared.borrow());
                                    if stale.is_empty() || rounds >= 6 {
                                        break;
                                    }
                                    rounds += 1;
                                    let curs: BTreeSet<String> = stale.iter().map(|(c, _)| c.clone()).collect();
                                    for c in curs {
                                        let content = shared.borrow().fs.get(&c).cloned();
                                        if let Some(content) = content {
                                            let _ = session::update(&shared, &c, &content);
                                        }
                                    }
                                }
                                let t2 = session::build_triple(&shared, &entry, &settings, *diag_first);
                                cx.log_triple(&t2);
                                if t2 == *fr {
                                    attributed = true;
                                    let k = opts.open("C14", "stale-parse-time-resolution").unwrap();
                                    *cx.out.stats.known_findings.entry(k.id.clone()).or_insert(0) += 1;
                                    let (c, s) = &stale0[0];
                                    let line = format!("KNOWN-FINDING: property=C14 stale parse-time import resolution of {} -> {} (session {} vs fresh {}) [{}]", c, s, ts.shape(), fr.shape(), k.id);
                                    cx.out.known_finding_lines.push(line);
                                    if opts.trace {
                                        cx.trace.push("  divergence attributed to the known finding (re-delivering the stale importers removed it)".into());
                                    }
                                }
                            }
                            if !attributed {
                                let what = if ts.code != fr.code { "code" } else if ts.emitted != fr.emitted { "emitted-diagnostics" } else if ts.diag != fr.diag { "diagnostics-api" } else { "panic" };
                                cx.violate(
                                    "C14",
                                    format!("divergence:session={},fresh={},differs-in={},stale-resolution-candidates={}", ts.shape(), fr.shape(), what, if stale0.is_empty() { "no" } else { "yes" }),
                                    json!({"session": ts.digest(), "fresh": fr.digest(), "stale_resolution_candidates": stale0}),
                                    i,
                                );
                            }
                            // the session has been perturbed by the attribution step / is wrong: stop here
                            break 'ops;
                        }
                    }
                    if ts.panic.is_some() {
                        dead = true;
                    }
                }
            }
        }
        // "terminates promptly": CPU time of one API call (thread clock, so load does not count).
        // A build of these projects takes 0.1-20 ms; three seconds is a different complexity class.
        let probe = session::take_max_call_probe();
        let cpu = session::take_max_call_cpu_ms();
        cx.out.max_call_cpu_ms = cx.out.max_call_cpu_ms.max(cpu);
        if cx.slow_call("session", cpu, probe, i) {
            cx.out.stats.probe("run_ended_by_slow_build");
            break 'ops;
        }
        if dead {
            cx.out.stats.probe("run_ended_by_session_panic");
            break 'ops;
        }
    }
    beff_wasm::verif_host::set_host(None);
    {
        let st = shared.borrow();
        let s = &mut cx.out.stats;
        if st.fired_read_error > 0 {
            *s.fired.entry("read_error".into()).or_insert(0) += st.fired_read_error;
        }
        if st.fired_resolve_error > 0 {
            *s.fired.entry("resolve_error".into()).or_insert(0) += st.fired_resolve_error;
        }
        if st.fired_enoent > 0 {
            *s.fired.entry("enoent_read".into()).or_insert(0) += st.fired_enoent;
        }
    }
    for (k, v) in &run.gen_faults {
        if k.starts_with("edit:") {
            *cx.out.stats.probes.entry(k.clone()).or_insert(0) += v;
        } else {
            *cx.out.stats.fired.entry(k.clone()).or_insert(0) += v;
        }
    }
    cx.out.log_hash = cx.log;
    cx.out.history_hash = hist;
    cx.out.nontrivial = cx.replaced_cached && cx.evaluated_checkpoint;
    let mut out = cx.out;
    if opts.trace {
        out.trace = cx.trace;
    }
    out
}

fn note_build(cx: &mut Ctx, shared: &Shared, _t: &Triple) {
    let st = shared.borrow();
    if !stale_resolutions(&st).is_empty() {
        cx.out.stats.probe("build_with_stale_resolution_candidate");
    }
    let h = fs_hash(&st.fs);
    if !cx.out.built_fs_hashes.contains(&h) {
        cx.out.built_fs_hashes.push(h);
    }
}

fn note_fs_built(cx: &mut Ctx, fs: &Fs, t: &Triple) {
    if cx.opts.collect_codes {
        if let Some(c) = &t.code {
            let settings = &cx.run.project.settings;
            let expected_keys = fs.get(&cx.run.project.entry).and_then(|src| crate::edits::build_parsers_keys(&cx.run.project.entry, src));
            let mut h = fnv64(c.as_bytes());
            h = fnv64_more(h, serde_json::to_string(&(&expected_keys, settings)).unwrap().as_bytes());
            if !cx.out.codes.iter().any(|x| x.hash == h) && (!cx.opts.code_dedup || crate::exec::first_time_in_this_process(h)) {
                let alias_cycle = crate::edits::noncontractive_alias_cycle(fs).is_some();
                cx.out.codes.push(CodeItem { hash: h, code: c.clone(), expected_keys, string_formats: settings.string_formats.clone(), number_formats: settings.number_formats.clone(), alias_cycle });
            }
        }
    }
    let h = fs_hash(fs);
    if !cx.out.built_fs_hashes.contains(&h) {
        cx.out.built_fs_hashes.push(h);
    }
}

pub fn short_op(op: &Op) -> String {
    match op {
        Op::Write { f, content } => format!("write {} ({} bytes, fnv {:08x})", f, content.len(), fnv64(content.as_bytes()) as u32),
        Op::WritePrefix { f, k, .. } => format!("write_prefix {} (first {} bytes)", f, k),
        Op::Delete { f } => format!("delete {}", f),
        Op::Deliver { f } => format!("deliver {}", f),
        Op::Update { f } => format!("update {}", f),
        Op::Rebuild { api } => format!("rebuild[{}]", api),
        Op::FaultOn { kind, f } => format!("fault_on {} {}", kind, f),
        Op::FaultOff { kind, f } => format!("fault_off {} {}", kind, f),
        Op::Checkpoint { .. } => "checkpoint".to_string(),
    }
}

/// Final SimFs of a run's editor operations (no session involved).
pub fn final_fs(run: &Run) -> Fs {
    let mut fs = run.project.files.clone();
    for op in &run.ops {
        match op {
            Op::Write { f, content } => {
                fs.insert(f.clone(), content.clone());
            }
            Op::WritePrefix { f, content, k } => {
                let k = crate::edits::char_boundary_floor(content, *k);
                fs.insert(f.clone(), content[..k].to_string());
            }
            Op::Delete { f } => {
                fs.remove(f);
            }
            _ => {}
        }
    }
    fs
}

/// Does any file-system state the session (or a fresh process) may have read during the run
/// contain a constructor-free alias cycle?  The session's view is a mix: a delivered / updated file
/// holds the content of the moment of the call (a torn save may be all it ever saw), every other
/// file the content at the build that first read it.  Used only to attribute KF-C04-4.
pub fn any_view_alias_cycle(run: &Run) -> Option<(String, String)> {
    let mut fs = run.project.files.clone();
    let mut view: Fs = Fs::new();
    let mut last_checked: Option<(Fs, Fs)> = None;
    for op in &run.ops {
        let mut reads = false;
        match op {
            Op::Write { f, content } => {
                fs.insert(f.clone(), content.clone());
            }
            Op::WritePrefix { f, content, k } => {
                let k = crate::edits::char_boundary_floor(content, *k);
                fs.insert(f.clone(), content[..k].to_string());
            }
            Op::Delete { f } => {
                fs.remove(f);
            }
            Op::Deliver { f } | Op::Update { f } => {
                if let Some(c) = fs.get(f) {
                    view.insert(f.clone(), c.clone());
                }
                reads = true;
            }
            Op::Rebuild { .. } | Op::Checkpoint { .. } => reads = true,
            _ => {}
        }
        if reads {
            for (f, c) in &fs {
                view.entry(f.clone()).or_insert_with(|| c.clone());
            }
            if last_checked.as_ref().map(|(a, b)| a != &fs || b != &view).unwrap_or(true) {
                if let Some(x) = crate::edits::noncontractive_alias_cycle(&view).or_else(|| crate::edits::noncontractive_alias_cycle(&fs)) {
                    return Some(x);
                }
                last_checked = Some((fs.clone(), view.clone()));
            }
        }
    }
    crate::edits::noncontractive_alias_cycle(&fs)
}

/// I-C10: the triple is identical across all variants of a fresh build of the same SimFs.
fn execute_c10(run: &Run, opts: &ExecOpts) -> Outcome {
    let mut cx = Ctx { run, opts, out: Outcome::default(), log: 0xcbf29ce484222325, trace: vec![], touched: BTreeSet::new(), replaced_cached: false, evaluated_checkpoint: false };
    let fs = final_fs(run);
    let entry = &run.project.entry;
    let mut results: Vec<FreshResult> = vec![];
    for (i, v) in run.variants.iter().enumerate() {
        if opts.heartbeat {
            println!("B variant");
            let _ = std::io::stdout().flush();
        }
        if opts.progress {
            println!("op {}", i);
            let _ = std::io::stdout().flush();
        }
        cx.out.stats.events += 1;
        cx.out.stats.c10_variants_built += 1;
        cx.out.stats.fresh_builds += 2;
        let fr = fresh_process(&fs, entry, &run.project.settings, v);
        cx.out.stats.probe(if fr.first.code.is_some() { "fresh_build_gave_code" } else { "fresh_build_gave_no_code" });
        cx.log_triple(&fr.first);
        cx.out.max_call_cpu_ms = cx.out.max_call_cpu_ms.max(fr.max_call_cpu_ms);
        if cx.slow_call("fresh", fr.max_call_cpu_ms, fr.max_call_probe, i) {
            cx.out.stats.probe("run_ended_by_slow_build");
            results.push(fr);
            break;
        }
        if !v.preregister.is_empty() {
            cx.out.stats.fire("preregistration_order");
        }
        if v.repeat {
            cx.out.stats.fire("repeat_in_session");
        }
        if v.diag_first {
            cx.out.stats.fire("diagnostics_api_first");
        }
        if !v.earlier.is_empty() {
            cx.out.stats.fire("earlier_revisions_compiled_first");
            if v.earlier.iter().any(|r| r.iter().any(|(_, c)| c == ABSENT_IN_EARLIER_REVISION)) {
                cx.out.stats.fire("file_absent_while_earlier_revisions_were_compiled");
            }
        }
        results.push(fr);
    }
    cx.out.stats.c10_comparisons += 1;
    let reach: BTreeSet<String> = results[0].resolved_to.iter().cloned().collect();
    check_c04(&mut cx, &results[0].first.clone(), Some((&fs, &reach)), "fresh", 0);
    note_fs_built(&mut cx, &fs, &results[0].first.clone());
    for (i, r) in results.iter().enumerate() {
        if let Some(s) = &r.second {
            if *s != r.first {
                cx.violate("C10", "differ:repeat-in-session".into(), json!({"variant": run.variants[i], "first": r.first.digest(), "second": s.digest()}), i);
            }
        }
    }
    // a panic anywhere is I-C04's business (reported above for variant 0, below for the others);
    // which entry point it surfaces at depends on the variant, so nothing is compared then
    let any_panic = results.iter().any(|r| r.first.panic.is_some());
    for (i, r) in results.iter().enumerate().skip(1) {
        if let Some(p) = &r.first.panic {
            cx.violate("C04", panic_class(p), json!({"who": "fresh", "panic": p, "variant": run.variants[i]}), i);
        }
    }
    if any_panic {
        cx.out.stats.probe("c10_comparison_skipped_panic");
    } else if let Some(j) = results.iter().position(|r| r.first != results[0].first) {
        // find the closest pair to name the separating dimension
        let mut dim = "mixed";
        let mut pair = (0, j);
        'outer: for a in 0..results.len() {
            for b in a + 1..results.len() {
                if results[a].first != results[b].first {
                    let (va, vb) = (&run.variants[a], &run.variants[b]);
                    if va.preregister == vb.preregister && va.diag_first == vb.diag_first && va.hash_seed != vb.hash_seed {
                        dim = "hash-keys";
                        pair = (a, b);
                        break 'outer;
                    }
                    if va.hash_seed == vb.hash_seed {
                        dim = "registration-order";
                        pair = (a, b);
                    }
                }
            }
        }
        let differing: Vec<usize> = (1..results.len()).filter(|i| results[*i].first != results[0].first).collect();
        // the outputs fall into exactly the two groups "logger that takes everything" / "no logger"
        let same: Vec<usize> = (1..results.len()).filter(|i| results[*i].first == results[0].first).collect();
        if differing.iter().all(|i| run.variants[*i].verbose != run.variants[0].verbose) && same.iter().all(|i| run.variants[*i].verbose == run.variants[0].verbose) {
            dim = "log-level";
            pair = (0, differing[0]);
        }
        if differing.iter().all(|i| !run.variants[*i].earlier.is_empty()) && run.variants[0].earlier.is_empty() {
            dim = "after-earlier-revisions";
            pair = (0, differing[0]);
        }
        let what = {
            let (a, b) = (&results[pair.0].first, &results[pair.1].first);
            if a.shape() != b.shape() { "shape" } else if a.code != b.code { "code" } else { "diagnostics" }
        };
        cx.violate(
            "C10",
            format!("differ:{}:{}", dim, what),
            json!({"a": {"variant": run.variants[pair.0], "out": results[pair.0].first.digest()}, "b": {"variant": run.variants[pair.1], "out": results[pair.1].first.digest()}}),
            pair.1,
        );
    }
    let nonempty = results[0].first.code.is_some() || !results[0].first.emitted.is_empty();
    cx.out.nontrivial = nonempty;
    // distinct = distinct file-system state compared (the variant set varies with every run anyway)
    cx.out.history_hash = fs_hash(&fs);
    cx.out.state_hashes.push(fs_hash(&fs));
    cx.out.log_hash = cx.log;
    cx.out
}

/// Workers send every distinct module once per process (the coordinator de-duplicates globally).
pub fn first_time_in_this_process(h: u64) -> bool {
    use std::sync::Mutex;
    static SEEN: Mutex<Option<BTreeSet<u64>>> = Mutex::new(None);
    let mut g = SEEN.lock().unwrap();
    let set = g.get_or_insert_with(BTreeSet::new);
    set.insert(h)
}
