#![recursion_limit = "512"]
//! ssim: deterministic simulation of beff compile sessions (C04, C10, C14) + tools for jsim.
mod bridge;
mod coord;
mod edits;
mod exec;
mod gen;
mod grammar;
mod host;
mod minimize;
mod model;
mod plan;
mod rng;
mod session;
mod strip;
mod tools;

use std::io::Write;

pub fn components_table() -> serde_json::Value {
    serde_json::json!({
        "real": [
            "beff-core: swc parse, bind_exports/bind_locals, frontend, subtyping, printer, diagnostics (from /repo working tree)",
            "beff-wasm: BUNDLER cache, LazyFileManager, WasmModuleResolver, update_file_content_inner, bundle_to_string_inner, bundle_to_diagnostics_inner, parse_entrypoints (native build, feature beff_verif)"
        ],
        "characterised_by_experiment": {
            "what": "packages/beff-wasm/ts-node/bundler.ts of the working tree is type-stripped and run under Node with the committed tsc-slim resolver (stand-ins for the wasm package, chalk, code-frame); js/hostprobe.mjs asks it whether resolve_import keeps positive / negative answers from one build to the next and whether a kept answer survives the deletion of its file; SimHost mirrors what was seen. The resolver model is compared with the real resolveModuleName on 400 seeded file layouts",
            "host_model": host_model_json(),
            "js_host_leg_of_C14": json_file("hostleg.json"),
            "js_host_leg_of_C10": json_file("hostdet.json"),
            "end_to_end_leg_of_C14": json_file("e2eleg.json"),
            "end_to_end_leg_of_C10": json_file("e2edet.json")
        },
        "stub": [
            "bundler.ts host functions + commandeer.ts watch loop + chokidar + tsc-slim resolveModuleName -> SimHost / deliver(f) / resolve_in (written from the sources, cache lifetime and resolver answers checked against the real code by js/hostprobe.mjs)",
            "bundle-to-disk.ts finalizeParserV2File -> string concatenation re-stated in tools.rs (self-tested against committed e2e outputs); every fourth module of the Node leg and the JavaScript legs of C10 / C14 run the working tree's own bundle-to-disk.ts instead"
        ],
        "real_end_to_end": "js/e2eleg.mjs (C14): the working tree's commandeer.ts / bundler.ts / bundle-to-disk.ts / project.ts in watch mode on a real scratch directory with the real compiler session (this binary, `sim bridge`) behind them - no model of the host, no stand-in compiler; stand-ins only for chokidar (watchers fired by the leg), commander, chalk, @babel/code-frame",
        "not_run": ["wasm-bindgen export wrappers, JsValue marshalling, init()"],
        "simulated": ["OS randomness (getrandom) for std HashMap keys", "file system", "change notifications", "host read/resolve faults"],
        "os_threads": "real, used as containers for simulated processes; exactly one runnable at a time"
    })
}

fn json_file(name: &str) -> serde_json::Value {
    let p = format!("{}/out/{}", coord::home(), name);
    std::fs::read_to_string(p).ok().and_then(|s| serde_json::from_str(&s).ok()).unwrap_or(serde_json::json!({"ran": false}))
}
fn host_model_json() -> serde_json::Value {
    let p = format!("{}/out/host_model.json", coord::home());
    std::fs::read_to_string(p).ok().and_then(|s| serde_json::from_str(&s).ok()).unwrap_or(serde_json::json!({"characterised": false}))
}

fn arg_after(args: &[String], flag: &str) -> Option<String> {
    args.iter().position(|a| a == flag).and_then(|i| args.get(i + 1)).cloned()
}

fn main() {
    let args: Vec<String> = std::env::args().collect();
    let cmd = args.get(1).map(|s| s.as_str()).unwrap_or("");
    let code = match cmd {
        "worker" => {
            coord::worker(&args[2], &args[3]);
            0
        }
        "check" => {
            let property = args[2].clone();
            let tier = arg_after(&args, "--tier").or_else(|| std::env::var("VERIF_TIER").ok()).unwrap_or_else(|| "quick".into());
            let runs = arg_after(&args, "--runs").and_then(|s| s.parse().ok()).unwrap_or_else(|| coord::budget_for(&property, &tier));
            let workers = arg_after(&args, "--workers").and_then(|s| s.parse().ok()).or_else(|| std::env::var("VERIF_WORKERS").ok().and_then(|s| s.parse().ok())).unwrap_or(16);
            let only: Option<Vec<u64>> = arg_after(&args, "--only").map(|s| s.split(',').filter_map(|x| x.parse().ok()).collect());
            let runs = only.as_ref().map(|v: &Vec<u64>| v.len() as u64).unwrap_or(runs);
            let collect_codes = property == "C04";
            let cfg = coord::CheckCfg { property, tier, runs, workers, determinism: false, collect_codes, only, pin_workers: false };
            coord::check(&cfg)
        }
        "determinism" => {
            let runs = arg_after(&args, "--runs").and_then(|s| s.parse().ok()).unwrap_or(500);
            coord::determinism(&args[2], "quick", runs)
        }
        "exec" => {
            coord::die_with_parent();
            session::install_panic_hook();
            coord::silence_stderr();
            let s = std::fs::read_to_string(&args[2]).expect("read run file");
            let run: model::Run = serde_json::from_str(&s).expect("parse run file");
            let opts = exec::ExecOpts { progress: args.iter().any(|a| a == "--progress"), open_findings: if args.iter().any(|a| a == "--with-findings") { coord::load_findings() } else { vec![] }, trace: args.iter().any(|a| a == "--trace"), ..Default::default() };
            if opts.progress {
                // what the probe in beff-core shows about the call that is running (read by the
                // parent if this process has to be killed); decides nothing in the run itself
                std::thread::spawn(|| {
                    let mut last = (0u64, 0u64);
                    loop {
                        std::thread::sleep(std::time::Duration::from_millis(250));
                        let now = beff_core::verif_probe::read();
                        if now != last && now.0 >= 100_000 {
                            last = now;
                            let mut o = std::io::stdout().lock();
                            let _ = writeln!(o, "probe {} {}", now.0, now.1);
                            let _ = o.flush();
                        }
                    }
                });
            }
            let out = exec::execute(&run, &opts);
            let mut o = std::io::stdout().lock();
            let _ = writeln!(o, "RESULT {}", serde_json::to_string(&out).unwrap());
            let _ = o.flush();
            0
        }
        "replay" => coord::replay_file(&args[2], false),
        "gen" => {
            let corpus = plan::load_corpus(&coord::corpus_path());
            let tier = arg_after(&args, "--tier").unwrap_or_else(|| "quick".into());
            let run = plan::plan(&corpus, &args[2], &tier, coord::root_seed(), args[3].parse().unwrap());
            println!("{}", serde_json::to_string_pretty(&run).unwrap());
            0
        }
        "selftest" => tools::selftest(),
        "aliascycle" => {
            // sim aliascycle <project.json> : verdict of the KF-C04-4 input-feature detector
            let p: model::Project = serde_json::from_str(&std::fs::read_to_string(&args[2]).unwrap()).unwrap();
            println!("{:?}", edits::noncontractive_alias_cycle(&p.files));
            0
        }
        "grammar" => {
            // sim grammar <seed> : print a grammar-generated project (debugging aid)
            let p = grammar::grammar_project(args[2].parse().unwrap());
            println!("{}", serde_json::to_string_pretty(&p).unwrap());
            0
        }
        "synthetic" => {
            // sim synthetic <seed> : print a synthetic project (debugging aid)
            let p = gen::synthetic_project(args[2].parse().unwrap());
            println!("{}", serde_json::to_string_pretty(&p).unwrap());
            0
        }
        "resolver-cases" => {
            // seeded file layouts + specifiers with the resolver model's answer, for the host probe
            // to compare with the real TypeScript resolver (js/hostprobe.mjs)
            let mut rng = rng::Rng::new(0x5E50_1BE5);
            let vocab = ["x.ts", "x.tsx", "x.d.ts", "x/index.ts", "x/index.d.ts", "x/index.tsx", "x/inner.ts", "y.ts", "sub/x.ts", "sub/y/index.ts", "node_modules/pkg/index.ts", "node_modules/pkg/index.d.ts", "node_modules/pkg/inner.ts", "node_modules/pkg.ts", "sub/node_modules/pkg/index.ts", "X.ts"];
            let specs = ["./x", "./x.js", "./x/", "./x/index", "./x/inner", "../x", "./y", "pkg", "pkg/inner", "./x.ts", "./x.tsx", "./x.d.ts", ".", "..", "./X", "./sub/x", "./sub/y", "./missing"];
            let mut cases = vec![];
            for _ in 0..400 {
                let mut files: Vec<String> = vocab.iter().filter(|_| rng.chance(1, 3)).map(|s| s.to_string()).collect();
                let importer = if rng.chance(1, 3) { "sub/e.ts" } else { "entry.ts" };
                files.push(importer.to_string());
                files.sort();
                files.dedup();
                let fs: host::Fs = files.iter().map(|f| (format!("/{}", f), String::new())).collect();
                let mut spec = *rng.pick(&specs);
                if importer == "entry.ts" && (spec == "../x" || spec == "..") {
                    // would leave the scratch root
                    spec = "./x";
                }
                let model = host::resolve_in(&fs, &format!("/{}", importer), spec);
                cases.push(serde_json::json!({"files": files, "importer": importer, "spec": spec, "model": model}));
            }
            println!("{}", serde_json::to_string(&cases).unwrap());
            0
        }
        "bridge" => bridge::bridge(&args[2], &args[3], args.get(4).and_then(|s| s.parse().ok()).unwrap_or(7)),
        "strip" => strip::strip_file(&args[2], &args[3]),
        "compile" => tools::compile_cmd(&args[2..]),
        "prepare-js" => tools::prepare_js(&args[2]),
        "prepare-js-chunk" => { coord::die_with_parent(); tools::prepare_js_chunk(&args[2], args[3].parse().unwrap(), args[4].parse().unwrap()) }
        _ => {
            println!("usage: sim check <C04|C10|C14> [--tier quick|thorough] | replay <file> | selftest | strip <in.ts> <out.js> | compile ...");
            2
        }
    };
    std::process::exit(code);
}
