//! Seeded generation of explicit runs. Generation never looks at compiler output, so a run is a
//! pure function of (corpus, seed): the coordinator can re-generate any run by its index.
use crate::edits::{self, Change, EditCtx, ALL_EDIT_KINDS};
use crate::host::Fs;
use crate::model::*;
use crate::rng::Rng;
use std::collections::{BTreeMap, BTreeSet};

pub const VALID_KINDS: &[&str] = &[
    "swap_decls", "flip_primitive", "add_property", "append_type", "alias_wrap", "touch", "revert", "move_decl", "toggle_export", "reformat_eol", "redoc",
];
pub const FILESET_KINDS: &[&str] = &["move_decl", "retarget_import", "create_file", "delete_file", "add_export_star", "foreign_content", "shadow_file", "package_shadow", "case_twin"];
pub const DAMAGE_KINDS: &[&str] = &["truncate", "drop_line", "stray_token", "unbalance", "garbage"];

/// Where else a project may be checked out: short ASCII paths, and deep paths with multi-byte
/// characters whose byte length varies with the seed (messages quote absolute file names, so what
/// a message is at byte k depends on where the checkout lives).
pub fn checkout_root(salt: u64) -> String {
    match salt % 5 {
        0 => "/home/ci/builds/4711/app".into(),
        1 => "/srv/x".into(),
        2 => "/p2".into(),
        _ => format!(
            "/home/{}{}/\u{30c9}\u{30ad}\u{30e5}\u{30e1}\u{30f3}\u{30c8}/\u{30d7}\u{30ed}\u{30b8}\u{30a7}\u{30af}\u{30c8}/\u{30af}\u{30e9}\u{30a4}\u{30a2}\u{30f3}\u{30c8}\u{5411}\u{3051}\u{8cc7}\u{6599}/\u{30d0}\u{30c3}\u{30af}\u{30a8}\u{30f3}\u{30c9}\u{30fb}\u{30b5}\u{30fc}\u{30d3}\u{30b9}/\u{691c}\u{8a3c}\u{7528}\u{30c1}\u{30a7}\u{30c3}\u{30af}\u{30a2}\u{30a6}\u{30c8}/\u{30ea}\u{30ea}\u{30fc}\u{30b9}\u{5019}\u{88dc}\u{7248}/\u{6700}\u{7d42}\u{78ba}\u{8a8d}\u{6e08}\u{307f}/\u{30bd}\u{30fc}\u{30b9}\u{30b3}\u{30fc}\u{30c9}/caf\u{e9}-\u{1f600}",
            ["\u{4f0a}\u{85e4}", "sato", "\u{5c0f}\u{5ddd}\u{3055}\u{3093}"][((salt >> 3) % 3) as usize],
            "x".repeat(((salt >> 5) % 4) as usize)
        ),
    }
}

/// One run in five uses a synthetic project (seeded type graph) instead of a corpus project.
pub fn pick_project_owned(corpus: &[Project], rng: &mut Rng) -> Project {
    if rng.chance(1, 5) {
        return synthetic_project(rng.next());
    }
    pick_project(corpus, rng).clone()
}

pub fn pick_project<'a>(corpus: &'a [Project], rng: &mut Rng) -> &'a Project {
    // half of the runs on multi-file projects (cross-file state), half uniformly
    if rng.chance(1, 2) {
        let multi: Vec<&Project> = corpus.iter().filter(|p| p.files.len() > 1).collect();
        if !multi.is_empty() {
            return *rng.pick(&multi);
        }
    }
    rng.pick(corpus)
}

fn foreign_fn<'a>(corpus: &'a [Project]) -> impl Fn(&mut Rng, &str) -> Option<String> + 'a {
    move |rng: &mut Rng, f: &str| {
        let cands: Vec<&String> = corpus.iter().filter_map(|p| p.files.get(f)).collect();
        if cands.is_empty() {
            None
        } else {
            Some((*rng.pick(&cands)).clone())
        }
    }
}

/// Split single-file programs into several files before the session starts, so that there is
/// cross-file state to go stale.
fn presplit(project: &mut Project, rng: &mut Rng) {
    let n = rng.range(1, 3);
    let versions = BTreeMap::new();
    let foreign = |_: &mut Rng, _: &str| None;
    let ctx = EditCtx { versions: &versions, foreign: &foreign, enabled: &["move_decl"], entry: &project.entry.clone() };
    for _ in 0..n {
        let entry = project.entry.clone();
        let content = match project.files.get(&entry) {
            Some(c) => c.clone(),
            None => return,
        };
        if let Some(e) = edits::apply_edit("move_decl", &project.files, &entry, &content, rng, &ctx) {
            for c in e.changes {
                if let Change::Write { f, content } = c {
                    project.files.insert(f, content);
                }
            }
        }
    }
}

fn random_settings(p: &Project, rng: &mut Rng) -> Settings {
    let mut s = p.settings.clone();
    match rng.below(4) {
        0 => {
            s.string_formats.retain(|_| rng.chance(1, 2));
            s.number_formats.retain(|_| rng.chance(1, 2));
        }
        1 => {
            s.string_formats.clear();
            s.number_formats.clear();
        }
        2 => {
            s.string_formats.push("Extra".into());
            s.number_formats.push("age".into());
            s.number_formats.sort();
            s.number_formats.dedup();
            s.string_formats.sort();
        }
        _ => {
            std::mem::swap(&mut s.string_formats, &mut s.number_formats);
        }
    }
    s
}

#[derive(Clone, Copy, PartialEq, Eq, Debug)]
pub enum Flavour {
    /// every write is delivered at once and followed by a rebuild; valid edits only
    ApiClean,
    /// API histories with broken / unresolvable contents, updates without rebuilds
    ApiMixed,
    /// watch loop with notification faults and host faults
    WatchFaults,
    /// C04: damage-heavy swarm
    Damage,
}

pub fn flavour_name(f: Flavour) -> &'static str {
    match f {
        Flavour::ApiClean => "api_clean",
        Flavour::ApiMixed => "api_mixed",
        Flavour::WatchFaults => "watch_faults",
        Flavour::Damage => "damage",
    }
}

pub fn generate_history(corpus: &[Project], seed: u64, property: &str, flavour: Flavour) -> Run {
    let mut rng = Rng::new(seed);
    let mut project = pick_project_owned(corpus, &mut rng);
    if project.files.len() == 1 && rng.chance(2, 3) || rng.chance(1, 8) {
        presplit(&mut project, &mut rng);
    }
    if (flavour == Flavour::Damage && rng.chance(1, 3)) || rng.chance(1, 12) {
        project.settings = random_settings(&project, &mut rng);
    }
    let session_hash_seed = rng.next();
    let foreign = foreign_fn(corpus);

    // swarm: which edit kinds, which faults, how long
    let pool: Vec<&'static str> = match flavour {
        Flavour::ApiClean => VALID_KINDS.to_vec(),
        Flavour::ApiMixed | Flavour::WatchFaults => ALL_EDIT_KINDS.to_vec(),
        Flavour::Damage => {
            let mut v = DAMAGE_KINDS.to_vec();
            v.extend(DAMAGE_KINDS);
            v.extend(["second_default", "alias_wrap", "add_export_star", "retarget_import", "delete_file", "dup_decl", "delete_decl", "rename_export", "foreign_content", "create_file", "toggle_export"]);
            v
        }
    };
    let fileset_stable = flavour == Flavour::ApiClean && rng.chance(1, 2) || (flavour != Flavour::Damage && rng.chance(1, 3));
    let mut enabled: Vec<&'static str> = vec![];
    let want = rng.range(2, 7);
    let mut guard = 0;
    while enabled.len() < want && guard < 64 {
        guard += 1;
        let k = *rng.pick(&pool);
        if fileset_stable && FILESET_KINDS.contains(&k) {
            continue;
        }
        enabled.push(k); // duplicates allowed: they weight the mix
    }
    let rate = |rng: &mut Rng| [0u32, 0, 1, 2, 4][rng.below(5)]; // out of 8
    let watch = flavour == Flavour::WatchFaults || (flavour == Flavour::Damage && rng.chance(1, 2));
    let (p_torn, p_lost, p_dup, p_delay) = if watch { (rate(&mut rng), rate(&mut rng), rate(&mut rng), rate(&mut rng)) } else { (0, 0, 0, 0) };
    let host_faults = watch && rng.chance(1, 2);
    let p_update_only = if flavour == Flavour::ApiMixed { rate(&mut rng) } else { 0 };
    let p_checkpoint = [2u32, 4, 6, 8][rng.below(4)];
    let n_steps = rng.range(1, 14);
    // one history in sixteen is four times as long (up to 56 editor steps): more revisions per file for reverts to
    // return to, more generations of the module cache. Decided by the seed itself, without a draw, so that every
    // other history is what it was before this was added.
    let long_history = seed.wrapping_mul(0x9E37_79B9_7F4A_7C15) >> 60 == 0;
    let n_steps = if long_history { n_steps * 4 } else { n_steps };

    let mut fs: Fs = project.files.clone();
    let mut versions: BTreeMap<String, Vec<String>> = BTreeMap::new();
    for (f, c) in &fs {
        versions.insert(f.clone(), vec![c.clone()]);
    }
    let mut ops: Vec<Op> = vec![];
    let mut pending: Vec<String> = vec![];
    let mut written: BTreeSet<String> = BTreeSet::new();
    let mut active_faults: Vec<(String, String, usize)> = vec![]; // kind, file, steps left
    let mut any_resolve_fault = false;
    let mut gen_faults: BTreeMap<String, u64> = BTreeMap::new();
    let seeds2 = |rng: &mut Rng| vec![rng.next(), rng.next()];

    // a host fault may already be active when the very first build reads the files
    if host_faults && rng.chance(1, 2) && !fs.is_empty() {
        let files: Vec<&String> = fs.keys().collect();
        let f = (*rng.pick(&files)).clone();
        let kind = if rng.chance(2, 3) { "read_error" } else { "resolve_error" };
        if kind == "resolve_error" {
            any_resolve_fault = true;
        }
        ops.push(Op::FaultOn { kind: kind.into(), f: f.clone() });
        active_faults.push((kind.into(), f, rng.range(1, 3)));
    }
    // watch mode always starts with exec(); API histories mostly do, sometimes they register first
    if watch || rng.chance(3, 4) {
        ops.push(Op::Rebuild { api: "string".into() });
        if rng.chance(1, 4) {
            ops.push(Op::Checkpoint { fresh_hash_seeds: seeds2(&mut rng), diag_first: rng.chance(1, 3) });
        }
    }

    for _step in 0..n_steps {
        // host faults come and go
        if host_faults && rng.chance(1, 4) && !fs.is_empty() {
            let files: Vec<&String> = fs.keys().collect();
            let f = (*rng.pick(&files)).clone();
            let kind = if rng.chance(1, 2) { "read_error" } else { "resolve_error" };
            if kind == "resolve_error" {
                any_resolve_fault = true;
            }
            ops.push(Op::FaultOn { kind: kind.into(), f: f.clone() });
            active_faults.push((kind.into(), f, rng.range(1, 3)));
        }
        // one editor action
        let ctx = EditCtx { versions: &versions, foreign: &foreign, enabled: &enabled, entry: &project.entry };
        let mut edit = None;
        for _ in 0..8 {
            if let Some(e) = edits::random_edit(&fs, &mut rng, &ctx) {
                edit = Some(e);
                break;
            }
        }
        if let Some(e) = edit {
            *gen_faults.entry(format!("edit:{}", e.kind)).or_insert(0) += 1;
            for ch in e.changes {
                match ch {
                    Change::Write { f, content } => {
                        let torn = p_torn > 0 && content.len() > 1 && rng.chance(p_torn, 8);
                        if torn {
                            let k = rng.range(0, content.len() - 1);
                            ops.push(Op::WritePrefix { f: f.clone(), content: content.clone(), k });
                            if rng.chance(3, 4) {
                                ops.push(Op::Deliver { f: f.clone() });
                            }
                        }
                        ops.push(Op::Write { f: f.clone(), content: content.clone() });
                        fs.insert(f.clone(), content.clone());
                        versions.entry(f.clone()).or_default().push(content);
                        written.insert(f.clone());
                        // notification
                        if !watch {
                            if p_update_only > 0 && rng.chance(p_update_only, 8) {
                                ops.push(Op::Update { f });
                            } else {
                                ops.push(Op::Deliver { f });
                            }
                        } else if p_lost > 0 && rng.chance(p_lost, 8) {
                            // lost: re-issued at heal
                            *gen_faults.entry("lost_notification".into()).or_insert(0) += 1;
                        } else if p_delay > 0 && rng.chance(p_delay, 8) {
                            *gen_faults.entry("delayed_notification".into()).or_insert(0) += 1;
                            pending.push(f);
                        } else {
                            ops.push(Op::Deliver { f: f.clone() });
                            if p_dup > 0 && rng.chance(p_dup, 8) {
                                *gen_faults.entry("dup_notification".into()).or_insert(0) += 1;
                                ops.push(Op::Deliver { f });
                            }
                        }
                    }
                    Change::Delete { f } => {
                        ops.push(Op::Delete { f: f.clone() });
                        fs.remove(&f);
                        written.insert(f.clone());
                        if rng.chance(1, 3) {
                            // chokidar would report unlink, which the loop ignores; a stray change event is possible
                            ops.push(Op::Deliver { f });
                        }
                    }
                }
            }
        }
        // delayed notifications trickle in, possibly out of order
        if !pending.is_empty() && rng.chance(1, 2) {
            let i = rng.below(pending.len());
            let f = pending.remove(i);
            ops.push(Op::Deliver { f });
        }
        if rng.chance(1, 6) {
            ops.push(Op::Rebuild { api: if rng.chance(1, 2) { "diagnostics".into() } else { "string".into() } });
        }
        // faults expire
        let mut still = vec![];
        for (k, f, left) in active_faults.drain(..) {
            if left <= 1 {
                ops.push(Op::FaultOff { kind: k, f });
            } else {
                still.push((k, f, left - 1));
            }
        }
        active_faults = still;
        if rng.chance(p_checkpoint, 8) {
            ops.push(Op::Checkpoint { fresh_hash_seeds: seeds2(&mut rng), diag_first: rng.chance(1, 3) });
        }
    }
    // heal: faults off, everything that changed is delivered, final checkpoint
    for (k, f, _) in active_faults.drain(..) {
        ops.push(Op::FaultOff { kind: k, f });
    }
    let to_deliver: Vec<String> = if any_resolve_fault || host_faults {
        let mut v: BTreeSet<String> = fs.keys().cloned().collect();
        v.extend(written.iter().cloned());
        v.into_iter().collect()
    } else {
        written.iter().cloned().collect()
    };
    for f in to_deliver {
        if fs.contains_key(&f) {
            ops.push(Op::Update { f });
        }
    }
    ops.push(Op::Checkpoint { fresh_hash_seeds: seeds2(&mut rng), diag_first: rng.chance(1, 3) });

    Run {
        engine: "ssim".into(),
        property: property.into(),
        root_seed: 0,
        run_index: 0,
        label: flavour_name(flavour).into(),
        project,
        session_hash_seed,
        cpu_mask: String::new(),
        mode: if watch { "watch".into() } else { "api".into() },
        ops,
        variants: vec![],
        violation_class: String::new(),
        observed: serde_json::Value::Null,
        gen_faults,
    }
}

/// C10: one SimFs (a corpus project as loaded, or after a few seeded edits), k variants.
/// Another revision of a source text with the same declarations: every doc comment gets other
/// words; a text without one gets one in front of its first exported declaration.
pub fn doc_rewrite(content: &str, salt: usize) -> String {
    if content.contains("/**") && content.contains("*/") {
        let mut out = String::with_capacity(content.len() + 64);
        let mut rest = content;
        let mut n = 0;
        while let Some(a) = rest.find("/**") {
            let Some(b) = rest[a..].find("*/") else { break };
            out.push_str(&rest[..a]);
            let inner = &rest[a + 3..a + b];
            out.push_str(&format!("/** revision {} block {} was:{} */", salt, n, inner.replace('\n', " ").chars().rev().collect::<String>()));
            rest = &rest[a + b + 2..];
            n += 1;
        }
        out.push_str(rest);
        out
    } else if let (Some(p), true) = (content.find("export "), content.len() < 60_000) {
        // (not in front of the tables of the LONG projects: a doc comment on an enum of 39 000 members makes a build take
        // 2.7 s instead of 0.16 s - quadratic in the number of members, DESIGN 9.14 - and ten such builds in one
        // checkpoint look like a stall to the watchdog)
        format!("{}/** revision {} wrote this */\n{}", &content[..p], salt, &content[p..])
    } else {
        format!("{}\n// revision {}\n", content, salt)
    }
}

pub fn generate_c10(corpus: &[Project], seed: u64, index: u64, k: usize) -> Run {
    let mut rng = Rng::new(seed);
    let n = corpus.len() as u64;
    // the first |corpus| runs walk the corpus as loaded; later runs sample edited states
    let (mut project, edited) = if index < n { (corpus[index as usize].clone(), false) } else { (pick_project_owned(corpus, &mut rng), true) };
    let mut ops = vec![];
    if edited {
        if project.files.len() == 1 && rng.chance(1, 2) {
            presplit(&mut project, &mut rng);
        }
        if rng.chance(1, 6) {
            project.settings = random_settings(&project, &mut rng);
        }
        let foreign = foreign_fn(corpus);
        let versions = BTreeMap::new();
        let mut fs = project.files.clone();
        let n_edits = rng.range(1, 4);
        // failing and partially broken projects matter: the *chosen diagnostic* is output
        let enabled: Vec<&'static str> = ALL_EDIT_KINDS.iter().cloned().filter(|k| !["revert", "touch"].contains(k)).collect();
        for _ in 0..n_edits {
            let ctx = EditCtx { versions: &versions, foreign: &foreign, enabled: &enabled, entry: &project.entry };
            for _ in 0..8 {
                if let Some(e) = edits::random_edit(&fs, &mut rng, &ctx) {
                    for ch in e.changes {
                        match ch {
                            Change::Write { f, content } => {
                                fs.insert(f.clone(), content.clone());
                                ops.push(Op::Write { f, content });
                            }
                            Change::Delete { f } => {
                                fs.remove(&f);
                                ops.push(Op::Delete { f });
                            }
                        }
                    }
                    break;
                }
            }
        }
    }
    let fs = {
        let r = Run { engine: String::new(), property: String::new(), root_seed: 0, run_index: 0, label: String::new(), project: project.clone(), session_hash_seed: 0, cpu_mask: String::new(), mode: String::new(), ops: ops.clone(), variants: vec![], violation_class: String::new(), observed: serde_json::Value::Null, gen_faults: Default::default() };
        crate::exec::final_fs(&r)
    };
    let files: Vec<String> = fs.keys().cloned().collect();
    let mut variants = vec![];
    for i in 0..k {
        let hash_seed = rng.next();
        let preregister = match i % 4 {
            0 => vec![],
            1 => {
                let mut v = files.clone();
                rng.shuffle(&mut v);
                v
            }
            2 => {
                let mut v: Vec<String> = files.iter().filter(|_| rng.chance(1, 2)).cloned().collect();
                rng.shuffle(&mut v);
                v
            }
            _ => {
                let mut v = files.clone();
                v.reverse();
                v
            }
        };
        // one variant in eight is a process that has compiled two earlier revisions of a few
        // files (same declarations, other doc comments) before it sees the real contents
        let mut earlier = vec![];
        if i % 8 == 6 && !files.is_empty() {
            let mut chosen = files.clone();
            rng.shuffle(&mut chosen);
            chosen.truncate(rng.range(1, 2).min(files.len()));
            // ... and, in one such variant of two, another file (not the entry point) did not exist yet while those
            // revisions were compiled: it appears on disk afterwards, without a word to the session
            let absent: Option<String> = if rng.chance(1, 2) { files.iter().filter(|f| **f != project.entry && !chosen.contains(f)).cloned().collect::<Vec<_>>().first().cloned() } else { None };
            for round in 0..2 {
                let mut r: Vec<(String, String)> = chosen.iter().map(|f| (f.clone(), doc_rewrite(&fs[f], round))).collect();
                if let Some(a) = &absent {
                    r.push((a.clone(), crate::model::ABSENT_IN_EARLIER_REVISION.to_string()));
                }
                earlier.push(r);
            }
        }
        // (the entry points are called in the other order by variants 2, 8 and every fifth from 9 on - variant 4
        // is the twin of variant 0 below; until round 10 that left the quick tier, k = 8, without any)
        variants.push(Variant { hash_seed, preregister, repeat: i % 3 == 0, diag_first: i % 5 == 4 || i == 2 || i == 8, root: None, earlier, verbose: i % 4 == 1 });
    }
    // one variant builds the same project checked out somewhere else
    if k >= 6 {
        variants[5].root = Some(checkout_root(rng.next()));
    }
    // one pair that differs in registration order only, one pair in hash keys only
    if k >= 4 {
        variants[3].hash_seed = variants[1].hash_seed;
        let p0 = variants[0].preregister.clone();
        if k >= 5 {
            variants[4].preregister = p0;
            variants[4].diag_first = false;
        }
    }
    Run {
        engine: "ssim".into(),
        property: "C10".into(),
        root_seed: 0,
        run_index: index,
        label: if edited { "edited_state".into() } else { "corpus_as_loaded".into() },
        project,
        session_hash_seed: 0,
        cpu_mask: String::new(),
        mode: "fresh".into(),
        ops,
        variants,
        violation_class: String::new(),
        observed: serde_json::Value::Null,
        gen_faults: Default::default(),
    }
}

// ---------------------------------------------------------------------------------------------
// Synthetic projects: seeded type graphs (named types sharing recursive members, discriminated
// unions, generics, utility types, unprintable leaves) spread over a few files. Workload only.
// ---------------------------------------------------------------------------------------------
/// A dense mesh of barrels: every file re-exports every other one; a few names are defined in
/// single files, one requested name is defined nowhere, one is re-exported by name.
fn barrel_mesh_project(seed: u64, rng: &mut Rng) -> Project {
    let n = rng.range(6, 14);
    let mut files: BTreeMap<String, String> = BTreeMap::new();
    for i in 0..n {
        let mut src = String::new();
        for j in 0..n {
            if j != i && (n <= 10 || rng.chance(9, 10)) {
                src.push_str(&format!("export * from \"./b{}\";\n", j));
            }
        }
        src.push_str(&format!("export type Own{} = {{ at: {}; s: string }};\n", i, i));
        if i == n - 1 {
            src.push_str("export { Leaf } from \"./leaf\";\n");
        }
        files.insert(format!("/p/b{}.ts", i), src);
    }
    files.insert("/p/leaf.ts".into(), "export type Leaf = { leaf: true };\n".into());
    let missing = if rng.chance(1, 2) { "; Nope: Nope" } else { "" };
    let imports = if missing.is_empty() { "Own0, Leaf" } else { "Own0, Leaf, Nope" };
    files.insert(
        "/p/entry.ts".into(),
        format!("import parse from \"./gen/parser\";\nimport {{ {}, Own{} }} from \"./b0\";\nparse.buildParsers<{{ Own0: Own0; Last: Own{}; Leaf: Leaf{} }}>();\n", imports, n - 1, n - 1, missing),
    );
    Project {
        id: format!("mesh_{:08x}", (seed & 0xffff_ffff) as u32),
        origin: "verif/sim/src/gen.rs barrel_mesh_project".into(),
        origin_kind: "synthetic".into(),
        entry: "/p/entry.ts".into(),
        settings: Settings { string_formats: vec![], number_formats: vec![] },
        module: "esm".into(),
        files,
    }
}

/// Some forty to eighty named types in a handful of files, among them types of the same name in
/// different files (`Item` in a.ts, b.ts and c.ts): more than any small-input fast path covers,
/// and name clashes whose printed names and order must not depend on the process.
fn wide_project(seed: u64, rng: &mut Rng) -> Project {
    let n_files = rng.range(3, 4);
    let per = rng.range(12, 22);
    let mut files: BTreeMap<String, String> = BTreeMap::new();
    let mut imports = String::new();
    let mut fields = vec![];
    let stems = ["a", "b", "c", "d"];
    for k in 0..n_files {
        let st = stems[k];
        let up = st.to_uppercase();
        let mut src = String::new();
        src.push_str(&format!("/** the Item of {} */\nexport type Item = {{ in_{}: string; n: {} }};\n/** the Meta of {} */\nexport type Meta = {{ of: \"{}\"; items: Item[] }};\n", st, st, k, st, st));
        imports.push_str(&format!("import {{ Item as {}Item, Meta as {}Meta }} from \"./{}\";\n", up, up, st));
        fields.push(format!("{}_item: {}Item", st, up));
        fields.push(format!("{}_meta?: {}Meta", st, up));
        let mut names = vec![];
        for i in 0..per {
            let body = match rng.below(4) {
                0 => format!("{{ v{}: string; item?: Item }}", i),
                1 if i > 0 => format!("{{ v{}: number; prev: {}{} | null }}", i, up, i - 1),
                2 => format!("{{ kind: \"{}{}\"; meta: Meta }}", st, i),
                _ => format!("{{ v{}: boolean[] }}", i),
            };
            src.push_str(&format!("/** {} number {} */\nexport type {}{} = {};\n", st, i, up, i, body));
            names.push(format!("{}{}", up, i));
        }
        imports.push_str(&format!("import {{ {} }} from \"./{}\";\n", names.join(", "), st));
        for n in &names {
            fields.push(format!("f_{}: {}", n.to_lowercase(), n));
        }
        files.insert(format!("/p/{}.ts", st), src);
    }
    files.insert("/p/entry.ts".into(), format!("import parse from \"./gen/parser\";\n{}/** everything */\nexport type All = {{ {} }};\nparse.buildParsers<{{ All: All; AItem: AItem; BItem: BItem; CMeta: CMeta }}>();\n", imports, fields.join("; ")));
    Project {
        id: format!("wide_{:08x}", (seed & 0xffff_ffff) as u32),
        origin: "verif/sim/src/gen.rs wide_project".into(),
        origin_kind: "synthetic".into(),
        entry: "/p/entry.ts".into(),
        settings: Settings { string_formats: vec![], number_formats: vec![] },
        module: "esm".into(),
        files,
    }
}

/// More modules than any cache is likely to be sized for (550-800 small files in short import
/// chains, every type documented, reached through one wide entry type; sometimes one of the late
/// modules has an error): what is emitted and reported must not depend on which of them a build
/// happened to keep.
fn many_modules_project(seed: u64, rng: &mut Rng) -> Project {
    let n = rng.range(550, 800);
    let bad = if rng.chance(1, 2) { Some(rng.range(n / 2, n - 1)) } else { None };
    let mut files: BTreeMap<String, String> = BTreeMap::new();
    let mut fields = vec![];
    for i in 0..n {
        let mut src = String::new();
        let chained = i % 8 != 7 && i + 1 < n;
        if chained {
            src.push_str(&format!("import {{ M{} }} from \"./mm{}\";\n", i + 1, i + 1));
        }
        let body = if Some(i) == bad { format!("{{ v{}: Missing{} }}", i, i) } else if chained { format!("{{ v{}: string; next?: M{} }}", i, i + 1) } else { format!("{{ v{}: number }}", i) };
        src.push_str(&format!("/** the module number {} says this about M{} */\nexport type M{} = {};\n", i, i, i, body));
        files.insert(format!("/p/mm{}.ts", i), src);
        if i % 8 == 0 {
            fields.push(format!("a{}: M{}", i, i));
        }
    }
    let imports: String = (0..n).step_by(8).map(|i| format!("import {{ M{} }} from \"./mm{}\";\n", i, i)).collect();
    files.insert("/p/entry.ts".into(), format!("import parse from \"./gen/parser\";\n{}/** everything */\nexport type All = {{ {} }};\nparse.buildParsers<{{ All: All; First: M0 }}>();\n", imports, fields.join("; ")));
    Project {
        id: format!("many_{:08x}", (seed & 0xffff_ffff) as u32),
        origin: "verif/sim/src/gen.rs many_modules_project".into(),
        origin_kind: "synthetic".into(),
        entry: "/p/entry.ts".into(),
        settings: Settings { string_formats: vec![], number_formats: vec![] },
        module: "esm".into(),
        files,
    }
}

/// `n` object types that all mention each other (and differ in one field): the number of simple
/// paths through the named types grows factorially with `n`.  Used by the hash256 termination leg.
pub fn dense_recursive_project(n: usize, style: usize) -> Project {
    let mut src = String::from("import parse from \"./gen/parser\";\n");
    for i in 0..n {
        let fields: Vec<String> = (0..n)
            .map(|j| match style {
                0 => format!("g{}?: N{}", j, j),
                1 => format!("g{}: N{}[]", j, j),
                _ => format!("g{}: N{} | null", j, j),
            })
            .collect();
        src.push_str(&format!("export type N{} = {{ own{}: string; {} }};\n", i, i, fields.join("; ")));
    }
    src.push_str("parse.buildParsers<{ N0: N0 }>();\n");
    let mut files: BTreeMap<String, String> = BTreeMap::new();
    files.insert("/p/entry.ts".into(), src);
    Project {
        id: format!("stress_dense_{}_{}", n, style),
        origin: "verif/sim/src/gen.rs dense_recursive_project".into(),
        origin_kind: "synthetic".into(),
        entry: "/p/entry.ts".into(),
        settings: Settings { string_formats: vec![], number_formats: vec![] },
        module: "esm".into(),
        files,
    }
}

/// Two towers of types in which every level mentions the level below twice (objects or tuples),
/// compared by a conditional type: linear for an engine that remembers what it has decided,
/// 2^depth otherwise.
fn deep_doubling_project(seed: u64, rng: &mut Rng) -> Project {
    let depth = rng.range(24, 40);
    let tuple = rng.chance(1, 3);
    let mut src = String::from("import parse from \"./gen/parser\";\n");
    for (p, leaf) in [("A", "{ v: string }"), ("B", "{ v: string | number }")] {
        src.push_str(&format!("export type {}0 = {};\n", p, leaf));
        for k in 1..=depth {
            if tuple {
                src.push_str(&format!("export type {}{} = [{}{}, {}{}];\n", p, k, p, k - 1, p, k - 1));
            } else {
                src.push_str(&format!("export type {}{} = {{ left: {}{}; right: {}{} }};\n", p, k, p, k - 1, p, k - 1));
            }
        }
    }
    src.push_str(&format!("export type Fits = A{} extends B{} ? \"yes\" : \"no\";\nexport type FitsNot = B{} extends A{} ? \"yes\" : \"no\";\n", depth, depth, depth, depth));
    src.push_str(&format!("parse.buildParsers<{{ Fits: Fits; FitsNot: FitsNot; Top: A{} }}>();\n", depth.min(6)));
    let mut files: BTreeMap<String, String> = BTreeMap::new();
    files.insert("/p/entry.ts".into(), src);
    Project {
        id: format!("deep_{:08x}", (seed & 0xffff_ffff) as u32),
        origin: "verif/sim/src/gen.rs deep_doubling_project".into(),
        origin_kind: "synthetic".into(),
        entry: "/p/entry.ts".into(),
        settings: Settings { string_formats: vec![], number_formats: vec![] },
        module: "esm".into(),
        files,
    }
}

/// LONG linear declarations, as generated code has them (opcode / error-code tables, column lists): an enum of
/// thousands of members (with initialisers, without - a diagnostic today -, or numbered from one explicit start), the
/// late members of it used one by one (`Op.C19999`, `typeof` of a constant initialised with one), a union of
/// thousands of literals, an object of thousands of properties, a long tuple. Whatever walks such a declaration
/// member by member must not do it by recursion (seeded change c04p-1: the value of an enum member computed as
/// "the member before, plus one" without a bound).
fn long_project(seed: u64, rng: &mut Rng) -> Project {
    let n = rng.range(3000, 40000);
    let style = rng.below(4); // 0: every member initialised, 1: none, 2: first one only, 3: every 1000th
    let mut codes = String::from("// generated table\nexport enum Op {\n");
    for i in 0..n {
        let init = match style {
            0 => true,
            1 => false,
            2 => i == 0,
            _ => i % 1000 == 0,
        };
        if init {
            codes.push_str(&format!("  C{} = {},\n", i, i + if style == 2 { 100 } else { 0 }));
        } else {
            codes.push_str(&format!("  C{},\n", i));
        }
    }
    codes.push_str("}\n");
    let late = [n - 1, n - 2, n / 2, rng.range(0, n - 1), 0];
    codes.push_str(&format!("export const LAST_OP = Op.C{};\nexport const SOME_OPS = {{ a: Op.C{}, b: Op.C{} }} as const;\n", late[0], late[1], late[2]));
    let mut entry = String::from("import parse from \"./gen/parser\";\nimport { Op, LAST_OP, SOME_OPS } from \"./codes\";\n");
    let mut keys = vec![];
    for (k, i) in late.iter().enumerate() {
        if rng.chance(2, 3) {
            entry.push_str(&format!("export type Late{} = Op.C{};\n", k, i));
            keys.push(format!("Late{}: Late{}", k, k));
        }
    }
    if rng.chance(1, 2) {
        entry.push_str("export type LastOp = typeof LAST_OP;\nexport type SomeOps = typeof SOME_OPS;\n");
        keys.push("LastOp: LastOp".into());
        keys.push("SomeOps: SomeOps".into());
    }
    if rng.chance(1, 3) {
        entry.push_str("export type AnyOp = Op;\nexport type Tagged = { op: Op; note?: string };\n");
        keys.push("AnyOp: AnyOp".into());
        keys.push("Tagged: Tagged".into());
    }
    if rng.chance(1, 2) {
        // (the semantic operators are quadratic in the number of literals: a second for 4 000; kept below 0.1 s)
        let m = rng.range(300, 1200);
        let lits: Vec<String> = (0..m).map(|i| format!("\"k{}\"", i)).collect();
        entry.push_str(&format!("export type BigUnion = {};\nexport type NotFirst = Exclude<BigUnion, \"k0\">;\n", lits.join(" | ")));
        keys.push("BigUnion: BigUnion".into());
        if rng.chance(1, 2) {
            keys.push("NotFirst: NotFirst".into());
        }
    }
    if rng.chance(1, 2) {
        let m = rng.range(300, 1200);
        let props: Vec<String> = (0..m).map(|i| format!("p{}{}: {}", i, if i % 7 == 0 { "?" } else { "" }, if i % 3 == 0 { "string" } else { "number" })).collect();
        entry.push_str(&format!("export type BigRow = {{ {} }};\nexport type RowKeys = keyof BigRow;\n", props.join("; ")));
        keys.push("BigRow: BigRow".into());
        if rng.chance(1, 3) {
            keys.push("RowKeys: RowKeys".into());
        }
    }
    if rng.chance(1, 3) {
        let m = rng.range(300, 3000);
        let els: Vec<&str> = (0..m).map(|i| if i % 2 == 0 { "number" } else { "string" }).collect();
        entry.push_str(&format!("export type LongTuple = [{}];\n", els.join(", ")));
        keys.push("LongTuple: LongTuple".into());
    }
    // a WIDE object whose members are all different nested objects, under a semantic operator: more distinct object
    // shapes inside one emptiness decision than any bounded table of the semantic engine holds (seeded change c04r-1
    // cleared a memo at 1 024 entries, together with the in-progress marks of the questions still being answered)
    if rng.chance(1, 2) {
        let m = rng.range(600, 2000);
        let props: Vec<String> = (0..m).map(|i| format!("w{}: {{ a{}: string; b{}: {{ c{}: number }} }}", i, i, i, i)).collect();
        entry.push_str(&format!("export type WideNest = {{ {} }};\nexport type WideOnly = Exclude<WideNest | string, string>;\n", props.join("; ")));
        keys.push("WideOnly: WideOnly".into());
    }
    if keys.is_empty() {
        entry.push_str("export type AnyOp = Op;\n");
        keys.push("AnyOp: AnyOp".into());
    }
    entry.push_str(&format!("parse.buildParsers<{{ {} }}>();\n", keys.join("; ")));
    let mut files: BTreeMap<String, String> = BTreeMap::new();
    files.insert("/p/entry.ts".into(), entry);
    files.insert("/p/codes.ts".into(), codes);
    Project {
        id: format!("long_{:08x}", (seed & 0xffff_ffff) as u32),
        origin: "verif/sim/src/gen.rs long_project".into(),
        origin_kind: "synthetic".into(),
        entry: "/p/entry.ts".into(),
        settings: Settings { string_formats: vec![], number_formats: vec![] },
        module: "esm".into(),
        files,
    }
}

pub fn synthetic_project(seed: u64) -> Project {
    let mut rng = Rng::new(seed ^ 0x5EED_0F_7E57);
    // one synthetic project in sixty-four has LONG declarations (decided by the seed without a draw: every other seed
    // denotes the project it denoted before)
    if seed.wrapping_mul(0xA24B_AED4_963E_E407) >> 58 == 0 {
        let mut r2 = Rng::new(seed ^ 0x10_46_10_46);
        return long_project(seed, &mut r2);
    }
    // one synthetic project in three comes from the recursive grammar (grammar.rs)
    if rng.chance(1, 3) {
        return crate::grammar::grammar_project(rng.next());
    }
    if rng.chance(1, 40) {
        return barrel_mesh_project(seed, &mut rng);
    }
    if rng.chance(1, 40) {
        return deep_doubling_project(seed, &mut rng);
    }
    if rng.chance(1, 60) {
        return many_modules_project(seed, &mut rng);
    }
    if rng.chance(1, 25) {
        return wide_project(seed, &mut rng);
    }
    let n_types = rng.range(3, 8);
    let n_files = rng.range(1, 3);
    let names: Vec<String> = (0..n_types).map(|i| format!("T{}", i)).collect();
    let file_of: Vec<usize> = (0..n_types).map(|_| rng.below(n_files)).collect();
    let fname = |k: usize| if k == 0 { "/p/entry.ts".to_string() } else { format!("/p/m{}.ts", k) };
    let poison = rng.chance(1, 3);
    let mut bodies: Vec<String> = vec![];
    let mut object_fields: Vec<usize> = vec![0; n_types]; // number of f<k> fields when Ti is an object
    let prim = ["string", "number", "boolean", "null", "\"lit\"", "42", "true", "string[]", "unknown", "any", "undefined", "bigint"];
    let mut enum_decl = String::new();
    let use_enum = rng.chance(1, 4);
    if use_enum {
        enum_decl = "export enum Color { Red = \"red\", Green = \"green\" }\nexport enum Flags {\n  None = 0,\n  Read = 1 << 0,\n  Write = 1 << 1,\n  Both = Read | Write,\n  Len = \"abc\".length,\n}\n".to_string();
    }
    let use_generic = rng.chance(1, 3);
    // the other files declare a generic of the same name with another shape (same-named types in
    // two files, instantiated with the same arguments)
    let own_generic = use_generic && rng.chance(1, 2);
    // generics whose body asks for an instantiation with other arguments (a new one at every
    // level, or a finite orbit)
    let grow_generic = use_generic && rng.chance(1, 3);
    let clash_generic = use_generic && rng.chance(1, 4);
    // kinds are drawn up front so that utility types can be applied to object types only
    let kinds: Vec<usize> = (0..n_types).map(|_| rng.below(10)).collect();
    let tagged = rng.chance(1, 3);
    let pre_objs: Vec<usize> = (0..n_types).filter(|i| kinds[*i] < 6 || (kinds[*i] == 8 && *i == 0)).collect();
    for i in 0..n_types {
        let kind = kinds[i];
        let r = |rng: &mut Rng| names[rng.below(n_types)].clone();
        let r_obj = |rng: &mut Rng| if pre_objs.is_empty() || rng.chance(1, 10) { names[rng.below(n_types)].clone() } else { names[*rng.pick(&pre_objs)].clone() };
        let body = if kind < 6 {
            // object with fields
            let nf = rng.range(1, 4);
            let mut fields = vec![];
            for f in 0..nf {
                if f == 0 && tagged {
                    // a literal-typed first field: unions of such named objects are discriminated
                    fields.push(format!("  f0: \"v{}\";", i));
                    continue;
                }
                let opt = if rng.chance(1, 4) { "?" } else { "" };
                let t = match rng.below(12) {
                    0 | 1 => prim[rng.below(prim.len() - 1)].to_string(),
                    2 => r(&mut rng),
                    3 => format!("{}[]", r(&mut rng)),
                    4 => format!("{} | null", r(&mut rng)),
                    5 => format!("{} | {}", r(&mut rng), r(&mut rng)),
                    6 => format!("[{}, number]", r(&mut rng)),
                    7 => format!("Record<string, {}>", r(&mut rng)),
                    8 => format!("{}<{}>", ["Partial", "Required", "Readonly"][rng.below(3)], r_obj(&mut rng)),
                    9 if use_generic && grow_generic && rng.chance(1, 3) => ["Nest<string>", "Grow<number>", "Swap<string, number>", "Nest<Nest<boolean>>", "Fork<string>", "Fork<Nest<number>>"][rng.below(6)].to_string(),
                    9 if use_generic && rng.chance(1, 10) => ["Box<string, number>", "Box", "Box<>"][rng.below(2)].to_string(),
                    9 if use_generic => {
                        if rng.chance(1, 2) {
                            format!("Box<{}>", ["string", "number", "boolean"][rng.below(3)])
                        } else {
                            format!("Box<{}>", r(&mut rng))
                        }
                    }
                    10 if use_enum => "Color".to_string(),
                    11 if poison && rng.chance(1, 2) => ["Date", "bigint", "Map<string, number>", "Set<string>"][rng.below(4)].to_string(),
                    _ => match rng.below(28) {
                        // template literals with regex metacharacters and slashes in the constant parts
                        0 => "`/api/${string}/items`".to_string(),
                        1 => "`${number}px`".to_string(),
                        2 => "`a.b*c+(${string})?[x]|y^$`".to_string(),
                        3 => "`id-${\"a\" | \"b\"}`".to_string(),
                        // tuples, index signatures, readonly arrays
                        4 => format!("[string, number, ...{}[]]", r(&mut rng)),
                        5 => format!("{{ [key: string]: {} }}", r(&mut rng)),
                        6 => format!("readonly {}[]", r(&mut rng)),
                        7 if use_enum => "Color.Red".to_string(),
                        8 if use_enum => "Flags.Read".to_string(),
                        9 if use_enum => "Flags".to_string(),
                        10 => "\"it's\" | \"say \\\"hi\\\"\" | \"back\\\\slash\"".to_string(),
                        13 => ["`${\"\"}`", "`prefix-${\"\"}`", "`line one\nline two ${number}`", "`${string}\\r\\n`", "`abc`", "`${number}`"][rng.below(6)].to_string(),
                        11 => "\"line\\nbreak\" | \"tab\\t\" | \"\\u2028sep\" | \"\u{1F600}\" | \"</script>\"".to_string(),
                        12 => "-0 | 1e21 | 0.1 | -1.5e-7 | 123456789012345680000".to_string(),
                        // custom formats (declared in the settings of every synthetic project)
                        14 => ["StringFormat<\"password\">", "StringFormat<\"Undeclared\">", "NumberFormat<\"age\">", "Sf", "SfChild", "Nf", "NfChild", "SfChildOfOther", "NfChildOfOther", "SfChildOfOther | SfChild"][rng.below(10)].to_string(),
                        15 => ["Uint8Array", "Float64Array", "BigInt64Array", "Uint8Array | string"][rng.below(4)].to_string(),
                        16 => format!("Record<\"a\" | \"b\", {}>", r(&mut rng)),
                        17 => if use_enum { format!("Record<Color, {}>", r(&mut rng)) } else { format!("Record<number, {}>", r(&mut rng)) },
                        18 => format!("{}<{}, \"f0\" | \"f1\">", ["Omit", "Pick"][rng.below(2)], r_obj(&mut rng)),
                        19 => format!("[{}, string?]", r(&mut rng)),
                        20 => [format!("{}[][]", r(&mut rng)), format!("Array<Array<{} | null>>", r(&mut rng)), format!("ReadonlyArray<{}>", r(&mut rng))][rng.below(3)].clone(),
                        21 => ["Object", "object", "{}", "Record<string, never>", "Record<never, string>"][rng.below(5)].to_string(),
                        22 => format!("Partial<Record<\"x\" | \"y\", {}>>", r(&mut rng)),
                        23 => format!("Map<string, {}>", r(&mut rng)),
                        24 => format!("Set<{}>", r(&mut rng)),
                        25 => format!("{} & {{ brand{}: true }}", r_obj(&mut rng), f),
                        26 => format!("Exclude<{} | null | undefined, undefined>", r(&mut rng)),
                        _ => prim[rng.below(prim.len() - 1)].to_string(),
                    },
                };
                // JSDoc on the referencing property: metadata lives on the reference site, the
                // shared definition must not pick it up
                let doc = if rng.chance(1, 3) { format!("/** doc {} of field {} of T{} */\n  ", rng.below(5), f, i) } else { String::new() };
                let fname = if f > 0 && rng.chance(1, 12) {
                    ["\"constructor\"", "\"__proto__\"", "\"a-b\"", "\"with space\"", "\"quo\\\"te\"", "\"\u{e9}t\u{e9}\"", "\"toString\"", "\"0\""][rng.below(8)].to_string()
                } else {
                    format!("f{}", f)
                };
                fields.push(format!("  {}{}{}: {};", doc, fname, opt, t));
            }
            object_fields[i] = nf;
            format!("{{\n{}\n}}", fields.join("\n"))
        } else if kind < 8 {
            // discriminated union of inline objects and / or named members
            let nm = rng.range(2, 3);
            let mut members = vec![];
            // sometimes two properties qualify as discriminator (kind and tag)
            let two = rng.chance(1, 3);
            for m in 0..nm {
                let extra = if rng.chance(1, 2) { format!("; v: {}", r(&mut rng)) } else { format!("; n{}: number", m) };
                let tag = if two { format!("; tag: \"t{}\"", m) } else { String::new() };
                members.push(format!("{{ kind: \"k{}\"{}{} }}", m, tag, extra));
            }
            members.join(" | ")
        } else if kind == 8 && i > 0 {
            // only earlier types: a chain of intersections must not close a constructor-free cycle
            format!("{} & {{ extra{}: string }}", names[rng.below(i)], i)
        } else if kind == 8 {
            format!("{{ only{}: string }}", i)
        } else if rng.chance(1, 3) {
            // a named union of literals whose emitted member order is not the order JavaScript's
            // default sort gives (mixed kinds, a member that is a prefix of another)
            ["\"auto\" | 10 | 100 | 9", "\"done\" | \"in progress\" | \"in\"", "\"yes\" | true | 1", "\"b\" | \"a!\" | \"a\" | \"B\"", "2 | 10 | 1 | \"1\" | false | null"][rng.below(5)].to_string()
        } else if rng.chance(1, 4) {
            // a named (possibly recursive) tuple
            match rng.below(3) {
                0 => format!("[string, ...{}[]]", names[i]),
                1 => format!("[number, {} | null]", r(&mut rng)),
                _ => format!("[{}, ...{}[]]", r(&mut rng), r(&mut rng)),
            }
        } else if rng.chance(1, 2) && i > 0 {
            // a named nullable alias (used as a property type elsewhere)
            format!("{} | null", names[rng.below(i)])
        } else {
            format!("Array<{} | string>", r(&mut rng))
        };
        bodies.push(body);
    }
    // a few declarations in other syntactic forms: interfaces (with extends), constants used
    // through typeof / keyof typeof, mapped and conditional types
    let mut extra_decls: Vec<String> = vec![];
    let mut extra_keys: Vec<String> = vec![];
    let objs0: Vec<usize> = (0..n_types).filter(|i| object_fields[*i] > 0).collect();
    if rng.chance(1, 3) && !objs0.is_empty() {
        let a = *rng.pick(&objs0);
        extra_decls.push(format!("export interface IBase {{ id: string; base?: {} }}", names[a]));
        extra_decls.push(format!("export interface IDerived extends IBase {{ more: {}[]; self?: IDerived }}", names[rng.below(n_types)]));
        extra_keys.push("IDerived: IDerived".into());
    }
    if rng.chance(1, 3) {
        extra_decls.push("export const CONFIG = { mode: \"fast\", retries: 3, nested: { on: true, tags: [\"a\", \"b\"] } } as const;".into());
        if rng.chance(1, 10) {
            // constants that mention each other / themselves
            extra_decls.push("export const LOOP_A = { name: \"a\", other: LOOP_B } as const;".into());
            extra_decls.push("export const LOOP_B = { name: \"b\", other: LOOP_A } as const;".into());
            extra_decls.push("export type Loop = typeof LOOP_A;".into());
            extra_keys.push("Loop: Loop".into());
        }
        if n_files >= 2 && rng.chance(1, 6) {
            extra_decls.push(format!("export type ViaImport = typeof import(\"./m1\").{}.inner;", ["CONFIG", "Missing", "T0"][rng.below(3)]));
            extra_keys.push("ViaImport: ViaImport".into());
        }
        if rng.chance(1, 5) {
            extra_decls.push("export const TPL = `abc` as const;".into());
            extra_decls.push("export type Tpl = typeof TPL;".into());
            extra_keys.push("Tpl: Tpl".into());
        }
        extra_decls.push("export type Config = typeof CONFIG;".into());
        extra_decls.push("export type ConfigKey = keyof typeof CONFIG;".into());
        extra_decls.push("export type Mode = (typeof CONFIG)[\"mode\"];".into());
        extra_keys.push("Config: Config".into());
        extra_keys.push("ConfigKey: ConfigKey".into());
        if rng.chance(1, 2) {
            extra_keys.push("Mode: Mode".into());
        }
    }
    if rng.chance(1, 6) {
        // constant arithmetic in enum initialisers and `as const` objects, including the corners
        // of integer and float arithmetic (zero divisors, shifts past the word size, overflow)
        let pool = [
            "100 % 0", "1 / 0", "-1 / 0", "0 / 0", "2 ** 1024", "1 << 40", "1 << 31", "-1 >>> 0", "-1 >> 40", "5 % -0", "0x7fffffff + 1",
            "9007199254740993 * 3", "-9223372036854775807 - 2", "9223372036854775807 + 1", "4611686018427387904 * 4", "~0", "7 / 2", "2 ** -1", "(1 + 2) * 3",
            "1e308 * 10", "0.1 + 0.2", "-0", "+\"3\"", "1 | 2 | 4", "6 & 3 ^ 1", "10 - 20",
        ];
        let n = rng.range(2, 5);
        let mut members = vec![];
        for m in 0..n {
            members.push(format!("  M{} = {},", m, pool[rng.below(pool.len())]));
        }
        extra_decls.push(format!("export enum Calc {{\n{}\n}}", members.join("\n")));
        extra_decls.push(format!("export const LIMITS = {{ a: {}, b: {}, c: [{}, {}] }} as const;", pool[rng.below(pool.len())], pool[rng.below(pool.len())], pool[rng.below(pool.len())], pool[rng.below(pool.len())]));
        extra_decls.push("export type Limits = typeof LIMITS;".into());
        extra_decls.push("export type CalcUser = { c: Calc; first: Calc.M0; lim?: Limits[\"a\"] };".into());
        extra_keys.push(["Calc: Calc", "CalcUser: CalcUser", "Limits: Limits"][rng.below(3)].into());
    }
    if rng.chance(1, 6) {
        // a nullable alias on a recursion cycle, reachable from either end
        extra_decls.push("export type MaybeNode = LNode | null;\nexport type LNode = { value: number; next: MaybeNode; prev?: MaybeNode };\nexport type LList = { head: MaybeNode; size: number };".into());
        for k in ["LNode: LNode", "MaybeNode: MaybeNode", "LList: LList"] {
            if rng.chance(2, 3) {
                extra_keys.push(k.into());
            }
        }
    }
    if rng.chance(1, 6) {
        // one inline discriminated union spelled at two sites that carry different documentation
        // (two union instances with one structural hash, neither variant a named type)
        let u = ["{ kind: \"file\"; path: string } | { kind: \"url\"; href: string; ttl?: number }", "{ ok: true; value: number } | { ok: false; error: string }", "{ t: 1; a: string[] } | { t: 2; b: { c: boolean } } | { t: 3 }"][rng.below(3)];
        extra_decls.push(format!("export type Job = {{\n  /** where the job reads from */\n  source: {};\n  retries: number;\n}};\nexport type Audit = {{\n  /** what was audited */\n  source: {};\n  by?: string;\n}};\nexport type Plain = {{ source: {} }};", u, u, u));
        for k in ["Job: Job", "Audit: Audit", "Plain: Plain"] {
            if rng.chance(3, 4) {
                extra_keys.push(k.into());
            }
        }
    }
    if rng.chance(1, 6) {
        // two format chains that end in the same format name
        extra_decls.push("export type TwoChains = { viaParent: SfChild; viaOther: SfChildOfOther; n1?: NfChild; n2?: NfChildOfOther };\nexport type OtherChainOnly = { only: SfChildOfOther; num: NfChildOfOther[] };\nexport type ParentChainOnly = { only: SfChild | null; num?: NfChild };".into());
        extra_keys.push("TwoChains: TwoChains".into());
        extra_keys.push("OtherChainOnly: OtherChainOnly".into());
        extra_keys.push("ParentChainOnly: ParentChainOnly".into());
    }
    if rng.chance(1, 8) {
        extra_decls.push("export type MultiLine = `first line\nsecond line ${string}\n`;\nexport type HasMultiLine = { text: MultiLine; plain: `a\nb` };".into());
        extra_keys.push("HasMultiLine: HasMultiLine".into());
    }
    if rng.chance(1, 8) {
        // type names that are also members of Object.prototype (ordinary, valid type names)
        let a = names[rng.below(n_types)].clone();
        extra_decls.push(format!("export type constructor = {{ b: number; back?: {} }};\nexport type toString = {{ a: string; self?: toString }};\nexport type valueOf = {{ c: boolean }};\nexport type hasOwnProperty = valueOf | null;", a));
        extra_decls.push("export type UsesProtoNames = { x: constructor; y: toString; z: valueOf[]; w?: hasOwnProperty };".into());
        extra_keys.push("UsesProtoNames: UsesProtoNames".into());
        if rng.chance(1, 2) {
            // a parser whose print dies half-way, in the same module: what a context does after the
            // rollback must not depend on whether such names were met before or after it
            extra_decls.push(format!("export type DiesLate = {{ first: {}; then: Date; never?: valueOf }};", names[0]));
            extra_keys.push("DiesLate: DiesLate".into());
        }
        if rng.chance(1, 2) {
            extra_keys.push("PN: toString".into());
        }
    }
    if rng.chance(1, 8) {
        // type names that are not ASCII (valid identifiers): whatever encodes names into $ref paths, definition
        // keys or JavaScript identifiers has to do it the same way every time
        extra_decls.push("export type Gr\u{f6}\u{df}e = { wert: number; n\u{e4}chste?: Gr\u{f6}\u{df}e | null };\nexport type Ma\u{df} = Gr\u{f6}\u{df}e | null;\nexport type \u{540d}\u{524d} = { kind: \"\u{540d}\"; g: Gr\u{f6}\u{df}e } | { kind: \"other\"; m: Ma\u{df} };\nexport type UsesNonAscii = { g: Gr\u{f6}\u{df}e; m: Ma\u{df}[]; n?: \u{540d}\u{524d} };".into());
        extra_keys.push("UsesNonAscii: UsesNonAscii".into());
        extra_keys.push("Gr\u{f6}\u{df}e: Gr\u{f6}\u{df}e".into());
        if rng.chance(1, 2) {
            extra_keys.push("Ma\u{df}: Ma\u{df}".into());
            extra_keys.push("\u{540d}\u{524d}: \u{540d}\u{524d}".into());
        }
    }
    if rng.chance(1, 8) {
        // a type query whose result holds a tuple with a rest element that is a union of objects, one of them
        // recursive through a key that sorts before the discriminator (generated names reached only through
        // the rest element)
        extra_decls.push("export type TDir = { type: \"dir\"; name: string; parent: TDir | TRoot };\nexport type TRoot = { type: \"root\"; parent: null };\nexport type TTrail = [string, ...(TDir | TRoot)[]];\nexport type TrailOnly = Exclude<TTrail | string, string>;\nexport type TrailRest = Exclude<[number, ...TTrail[]] | null, null>;".into());
        extra_keys.push("TrailOnly: TrailOnly".into());
        if rng.chance(1, 2) {
            extra_keys.push("TrailRest: TrailRest".into());
        }
    }
    if rng.chance(1, 8) {
        // named variants of discriminated unions that are also referenced plainly: one with a discriminator of
        // several values, one whose name may be overridden by a parser that cannot be printed (a Date inside)
        extra_decls.push("export type PCard = { method: \"visa\" | \"amex\"; pan: string };\nexport type PCash = { method: \"cash\"; drawer: number };\nexport type Payment = PCard | PCash;\nexport type Refund = { original: PCard; reason: string };\nexport type PStamp = { kind: \"stamp\"; at: string };\nexport type PNote = { kind: \"note\"; text: string };\nexport type PEntry = PStamp | PNote;\nexport type PAudit = { last: PStamp; note: PNote };\nexport type NativeStamp = { kind: \"stamp\"; at: Date };".into());
        for k in ["PCard", "Payment", "Refund", "PStamp", "PEntry", "PAudit", "NativeStamp"] {
            extra_keys.push(format!("{}: {}", k, k));
        }
    }
    let mut pet_files = false;
    if rng.chance(1, 8) {
        // two modules whose doc comments sit at the same byte offsets (same layout, same lengths): whatever keys
        // comments by position must keep the files apart
        pet_files = true;
        extra_decls.push("import { PetCat } from \"./pet_cat\";\nimport type { PetDog } from \"./pet_dog\";\nexport type Pets = { cat: PetCat; dog?: PetDog };".into());
        extra_keys.push("Pets: Pets".into());
        extra_keys.push("PetCat: PetCat".into());
        extra_keys.push("PetDog: PetDog".into());
    }
    let mut cyc_files = false;
    if rng.chance(1, 8) {
        // declarations that refer to themselves in ways the type checker rejects (or that only a
        // qualified import type can reach): the compiler has to answer with a diagnostic
        for _ in 0..rng.range(1, 2) {
            match rng.below(8) {
                0 => {
                    extra_decls.push(format!("export enum SelfEnum {{ A = SelfEnum.{}, B = 2 }}", ["A", "B", "C"][rng.below(3)]));
                    extra_keys.push("SelfEnum: SelfEnum".into());
                }
                1 => {
                    extra_decls.push("export enum EnA { A = EnB.B }\nexport enum EnB { B = EnA.A }".into());
                    extra_keys.push("EnA: EnA".into());
                }
                2 => {
                    extra_decls.push("export interface ICyc extends ICyc { a: string }".into());
                    extra_keys.push("ICyc: ICyc".into());
                }
                3 => {
                    extra_decls.push("export interface ICycA extends ICycB { a: string }\nexport interface ICycB extends ICycA { b: string }".into());
                    extra_keys.push("ICycA: ICycA".into());
                }
                4 => {
                    extra_decls.push("export const SELFREF = { a: SELFREF.a, b: 1 };\nexport type SelfRef = typeof SELFREF;".into());
                    extra_keys.push("SelfRef: SelfRef".into());
                }
                5 => {
                    extra_decls.push("export const SELFARR = [SELFARR[0], 1] as const;\nexport type SelfArr = typeof SELFARR;".into());
                    extra_keys.push("SelfArr: SelfArr".into());
                }
                6 if rng.chance(1, 2) => {
                    // a cycle made of default imports / default exports only
                    cyc_files = true;
                    extra_decls.push(["import CycX from \"./cyc_a\";\nexport type ViaCyc = typeof CycX;", "import CycX from \"./cyc_a\";\nexport type ViaCyc = CycX;", "export type ViaCyc = typeof import(\"./cyc_a\");", "import CycS from \"./cyc_self\";\nexport type ViaCyc = typeof CycS;"][rng.below(4)].to_string());
                    extra_keys.push("ViaCyc: ViaCyc".into());
                }
                6 if n_files >= 2 => {
                    extra_decls.push(format!("export type ViaQualifiedImport = import(\"./m1\").{};", ["NsM1.Inner", "NsM1.Missing", "Missing.Inner", "NsM1.Deep.Leaf"][rng.below(4)]));
                    extra_keys.push("ViaQualifiedImport: ViaQualifiedImport".into());
                }
                _ => {
                    // (a const annotated with its own typeof is one more spelling of the
                    // constructor-free alias cycle of KF-C04-4 and is left out)
                    extra_decls.push(format!("export const ANNOTATED: {} = null as any;\nexport type ViaAnnotation = typeof ANNOTATED;", names[rng.below(n_types)]));
                    extra_keys.push("ViaAnnotation: ViaAnnotation".into());
                }
            }
        }
    }
    if rng.chance(1, 3) && !objs0.is_empty() {
        let a = *rng.pick(&objs0);
        match rng.below(4) {
            0 => extra_decls.push(format!("export type Mapped = {{ [K in \"x\" | \"y\"]: {} }};", names[a])),
            1 => extra_decls.push(format!("export type Mapped = {{ [K in keyof {}]?: string }};", names[a])),
            2 if rng.chance(1, 4) => extra_decls.push(format!("export type Mapped = {} extends {{ f0: infer U }} ? U : never;", names[a])),
            2 => extra_decls.push(format!("export type Mapped = Pick<{}, \"f0\"> & {{ extra: number }};", names[a])),
            _ => extra_decls.push(format!("export type Mapped = {} extends object ? \"obj\" : \"other\";", names[a])),
        }
        extra_keys.push("Mapped: Mapped".into());
    }
    // many JSDoc blocks in one file, some doubled (the comment map is a concurrent map whose
    // iteration order follows the CPU count)
    if rng.chance(1, 12) {
        let n_doc = rng.range(22, 45);
        for d in 0..n_doc {
            if rng.chance(1, 4) {
                extra_decls.push(format!("/** first block of Doc{} */", d));
            }
            extra_decls.push(format!("/** description of Doc{} */\nexport type Doc{} = {{ d{}: string }};", d, d, d));
        }
        extra_decls.push(format!("export type AllDocs = {{ first: Doc0; last: Doc{}; mid: Doc{} }};", n_doc - 1, n_doc / 2));
        extra_keys.push("AllDocs: AllDocs".into());
        extra_keys.push(format!("DocLast: Doc{}", n_doc - 1));
        extra_keys.push("Doc1: Doc1".into());
    }
    // a generic alias with a DEFAULT type argument that names a type private to its module, declared far out on a
    // long line of a small file, and used from a still smaller file with that argument left out (beff knows no
    // defaults: a located diagnostic today). One synthetic project in eight, decided by the seed without a draw.
    let default_generic = seed.wrapping_mul(0x9E37_79B9_7F4A_7C15) >> 61 == 0;
    if default_generic {
        // (the use sits in a file that is much shorter than the declaring one: a position of the declaration is
        // not a position of the using file)
        extra_decls.push("import { UsesPage } from \"./pageuse\";".into());
        extra_keys.push("UsesPage: UsesPage".into());
    }
    // a package imported through a bare specifier (node_modules lookup walks up the directories)
    let bare_pkg = rng.chance(1, 5);
    if bare_pkg {
        extra_decls.push("import { PkgId, PkgMeta } from \"shared-types\";".into());
        extra_decls.push("export type UsesPkg = { id: PkgId; meta?: PkgMeta };".into());
        extra_keys.push("UsesPkg: UsesPkg".into());
    }
    // ... and, in one such project of two (decided by the seed without a draw), a type of the package has the SAME
    // NAME as a type of the project and both are requested: the emitted names carry the part of the two file paths
    // that differs, so how a package file is spelled (link or real path) is in the output (seeded change c10l-2)
    let pkg_clash = bare_pkg && seed.wrapping_mul(0xD6E8_FEB8_6659_FD93) >> 63 == 0;
    if pkg_clash {
        extra_decls.push("import { Receipt as PkgReceipt } from \"shared-types\";".into());
        extra_decls.push("export type Receipt = { no: number; lines: string[] };\nexport type UsesReceipts = { mine: Receipt; theirs: PkgReceipt };".into());
        extra_keys.push("UsesReceipts: UsesReceipts".into());
        extra_keys.push("Receipt: Receipt".into());
    }
    // a script file with global declarations, pulled in by a side-effect import that sits in
    // another module than the one that uses the globals
    let ambient = n_files >= 2 && rng.chance(1, 6);
    if ambient {
        extra_decls.push("export type UsesAmbient = { price: GlobalMoney; label?: GlobalTag };".into());
        extra_keys.push("UsesAmbient: UsesAmbient".into());
    }
    // a JSON module (one line, negative numbers, nested arrays) used through typeof
    let json_mod = rng.chance(1, 10);
    if json_mod {
        extra_decls.push("import LIMITS from \"./limits.json\";\nexport type Limits = typeof LIMITS;\nexport type LimitName = (typeof LIMITS)[\"name\"];".into());
        extra_keys.push("Limits: Limits".into());
    }
    let default_expr = n_files >= 2 && rng.chance(1, 5);
    if default_expr {
        extra_decls.push("import Def from \"./m1\";".into());
        extra_decls.push("export type DefT = typeof Def;".into());
        extra_keys.push("DefT: DefT".into());
    }
    let in_m1: Vec<&String> = (0..n_types).filter(|i| file_of[*i] == 1).map(|i| &names[i]).collect();
    if rng.chance(1, 4) {
        // tuples and projections with literal indices (inside, at and beyond the fixed length)
        let tup = match rng.below(3) {
            0 => "[string, number]".to_string(),
            1 => "[string, ...number[]]".to_string(),
            _ => format!("[{}, boolean, ...string[]]", names[rng.below(n_types)]),
        };
        extra_decls.push(format!("export type Tup = {};", tup));
        let idx = ["0", "1", "2", "3", "number", "0 | 1", "0 | 2", "1 | 2"][rng.below(8)];
        extra_decls.push(format!("export type TupAt = Tup[{}];", idx));
        extra_keys.push("Tup: Tup".into());
        extra_keys.push("TupAt: TupAt".into());
    }
    if rng.chance(1, 5) {
        // unions / intersections whose members evaluate to never
        let a = names[rng.below(n_types)].clone();
        let body = match rng.below(6) {
            0 => format!("Exclude<{}, {}>", a, a),
            1 => "Exclude<\"a\", \"a\"> | Exclude<1, 1>".to_string(),
            2 => "never | never".to_string(),
            3 => "keyof {}".to_string(),
            4 => format!("Exclude<{}, {}> | Exclude<string, string>", a, a),
            _ => "(string & number) | (\"a\" & \"b\")".to_string(),
        };
        extra_decls.push(format!("export type Nothing = {};", body));
        extra_decls.push("export type HasNothing = { n: Nothing; ok: string; list: Nothing[] };".into());
        extra_keys.push(if rng.chance(1, 2) { "Nothing: Nothing".into() } else { "HasNothing: HasNothing".into() });
    }
    let ns_import = n_files >= 2 && !in_m1.is_empty() && rng.chance(1, 3);
    let ns_members: String = in_m1.iter().take(2).map(|n| format!("M1.{}", n)).collect::<Vec<_>>().join(" | ");
    // type queries evaluated by the semantic engine on (possibly recursive) named types
    let objs: Vec<usize> = (0..n_types).filter(|i| object_fields[*i] > 0).collect();
    let mut queries: Vec<(String, String)> = vec![];
    if rng.chance(1, 4) {
        // semantic operators over any named type (tuples, unions, aliases), not only objects
        let a = names[rng.below(n_types)].clone();
        let body = match rng.below(4) {
            0 => format!("Exclude<{} | null, null>", a),
            1 => format!("Exclude<{} | string, string>", a),
            2 => format!("{} extends unknown[] ? \"list\" : \"other\"", a),
            _ => format!("Exclude<{}, undefined>[]", a),
        };
        queries.push(("QAny".to_string(), body));
    }
    if !objs.is_empty() && rng.chance(1, 2) {
        let nq = rng.range(1, 3);
        for q in 0..nq {
            let a = *rng.pick(&objs);
            let fld = format!("f{}", rng.below(object_fields[a]));
            let body = match rng.below(8) {
                0 => format!("Exclude<{}[\"{}\"], null>", names[a], fld),
                1 => format!("keyof {}", names[a]),
                2 => format!("{}[\"{}\"]", names[a], fld),
                3 => format!("Pick<{}, \"{}\">", names[a], fld),
                4 => format!("Omit<{}, \"{}\">", names[a], fld),
                5 => format!("Required<{}>", names[a]),
                6 => match rng.below(4) {
                    0 => "Exclude<unknown, undefined>".to_string(),
                    1 => "Exclude<unknown, Uint8Array>".to_string(),
                    2 => format!("Exclude<any, {}>", names[a]),
                    _ => format!("Exclude<{} | string, string>", names[a]),
                },
                _ => format!("NonNullable<{}[\"{}\"]> extends string ? \"s\" : \"o\"", names[a], fld),
            };
            queries.push((format!("Q{}", q), body));
        }
    }
    // an object type must break every reference cycle: make T0 an object if it is not
    let mut files: BTreeMap<String, String> = BTreeMap::new();
    let mut decls: Vec<Vec<String>> = vec![vec![]; n_files];
    for i in 0..n_types {
        let doc = if rng.chance(1, 5) { format!("/** documented type {} */\n", names[i]) } else { String::new() };
        decls[file_of[i]].push(format!("{}export type {} = {};", doc, names[i], bodies[i]));
    }
    for k in 0..n_files {
        let mut src = String::new();
        if k == 0 {
            src.push_str("import parse from \"./gen/parser\";\n");
        }
        // imports of every name defined elsewhere (unused ones are harmless)
        for j in 0..n_files {
            if j != k {
                let ns: Vec<&String> = (0..n_types).filter(|i| file_of[*i] == j).map(|i| &names[i]).collect();
                if !ns.is_empty() {
                    let spec = if j == 0 { "./entry".to_string() } else { format!("./m{}", j) };
                    src.push_str(&format!("import {{ {} }} from \"{}\";\n", ns.iter().map(|s| s.as_str()).collect::<Vec<_>>().join(", "), spec));
                }
            }
        }
        if k == 0 {
            src.push_str("export type Sf = StringFormat<\"SfParent\">;\nexport type SfChild = StringFormatExtends<Sf, \"SfChild\">;\nexport type Nf = NumberFormat<\"NfParent\">;\nexport type NfChild = NumberFormatExtends<Nf, \"NfChild\">;\nexport type SfOther = StringFormat<\"password\">;\nexport type SfChildOfOther = StringFormatExtends<SfOther, \"SfChild\">;\nexport type NfOther = NumberFormat<\"age\">;\nexport type NfChildOfOther = NumberFormatExtends<NfOther, \"NfChild\">;\n");
        } else {
            src.push_str("import { Sf, SfChild, Nf, NfChild, SfChildOfOther, NfChildOfOther } from \"./entry\";\n");
        }
        if k == 0 {
            src.push_str(&enum_decl);
            if use_generic {
                src.push_str("export type Box<T> = { value: T; tag?: string };\n");
            }
            if clash_generic {
                // user types spelled like the names the compiler gives to generic instances
                src.push_str("export type Box_string = { clash: true };\nexport type Box_X<T> = { w: T };\nexport type X_Y = { s: string };\nexport type Y = { n: number };\nexport type Clashes = { a: Box<string>; b: Box_string; c?: Box<X_Y>; d?: Box_X<Y> };\n");
            }
            if grow_generic {
                src.push_str("export type Nest<T> = { v: T; n?: Nest<T[]> };\nexport type Grow<T> = { v: T; n?: Grow<{ w: T }> | null };\nexport type Swap<A, B> = { a: A; b: B; swap?: Swap<B, A> };\nexport type Fork<T> = { value: T; many?: Fork<T[]>; one?: Fork<[T]> };\n");
            }
        } else if use_enum || use_generic {
            let mut v = vec![];
            if use_enum {
                v.push("Color");
                v.push("Flags");
            }
            if use_generic && !own_generic {
                v.push("Box");
            }
            if grow_generic {
                v.push("Nest");
                v.push("Grow");
                v.push("Swap");
            }
            if !v.is_empty() {
                src.push_str(&format!("import {{ {} }} from \"./entry\";\n", v.join(", ")));
            }
            if own_generic {
                src.push_str(&format!("export type Box<T> = {{ boxed{}: T; n?: number }};\n", k));
            }
        }
        for d in &decls[k] {
            src.push_str(d);
            src.push('\n');
        }
        if k == 1 && ambient {
            src.push_str("import \"./globals\";\n");
        }
        if k == 1 {
            // a namespace that only a qualified name can reach
            src.push_str("export namespace NsM1 { export type Inner = string; export namespace Deep { export type Leaf = number } }\n");
        }
        if k == 1 && default_expr {
            // a default export that is an expression mentioning values of its own file
            src.push_str("const inner = { deep: 1, list: [\"x\"] } as const;\nconst label = \"m1\" as const;\n");
            src.push_str(["export default { a: inner, label };\n", "export default { a: inner, made: compute(1) };\n", "export default [inner, label] as const;\n"][rng.below(3)]);
        }
        if k == 0 {
            for (qn, qb) in &queries {
                src.push_str(&format!("export type {} = {};\n", qn, qb));
            }
            for d in &extra_decls {
                src.push_str(d);
                src.push('\n');
            }
            if ns_import {
                src.push_str(&format!("import * as M1 from \"./m1\";\nexport type ViaNs = {{ first: {} | null }};\n", ns_members));
            }
            let mut keys: Vec<String> = names.iter().map(|n| format!("{}: {}", n, n)).collect();
            for (qn, _) in &queries {
                keys.push(format!("{}: {}", qn, qn));
            }
            keys.extend(extra_keys.iter().cloned());
            if clash_generic {
                keys.push("Clashes: Clashes".into());
            }
            if ns_import {
                keys.push("ViaNs: ViaNs".into());
            }
            if rng.chance(1, 2) {
                keys.push(format!("Inline: {{ a: {}; b: {}[] }}", names[0], names[n_types - 1]));
            }
            if rng.chance(1, 6) {
                // parser names that collide with Object.prototype members or are reserved words
                let hostile = ["constructor", "toString", "valueOf", "hasOwnProperty", "__proto__", "class", "default", "new", "Gr\u{f6}\u{df}e", "\u{540d}\u{524d}", "\u{3c0}", "$", "_"];
                keys.push(format!("{}: {}", rng.pick(&hostile), names[0]));
            }
            src.push_str(&format!("parse.buildParsers<{{ {} }}>();\n", keys.join("; ")));
        }
        files.insert(fname(k), src);
    }
    if pet_files {
        files.insert("/p/pet_cat.ts".into(), "/** A cat. */\nexport type PetCat = {\n  /** name of cat */\n  name: string;\n  /** lives left */\n  n: number;\n};\n".into());
        files.insert("/p/pet_dog.ts".into(), "/** A dog. */\nexport type PetDog = {\n  /** name of dog */\n  name: string;\n  /** legs left */\n  n: number;\n};\n".into());
    }
    if cyc_files {
        files.insert("/p/cyc_a.ts".into(), "import x from \"./cyc_b\";\nexport default x;\n".into());
        files.insert("/p/cyc_b.ts".into(), "import x from \"./cyc_a\";\nexport default x;\n".into());
        files.insert("/p/cyc_self.ts".into(), "import x from \"./cyc_self\";\nexport default x;\n".into());
    }
    // a checkout with CRLF line ends (every line break inside a template literal type included)
    if rng.chance(1, 8) {
        let which: Vec<String> = files.keys().cloned().collect();
        let f = rng.pick(&which).clone();
        let c = files[&f].replace('\n', "\r\n");
        files.insert(f, c);
    }
    if json_mod {
        let docs = [
            "{\"name\":\"default\",\"maxItems\":100,\"minOffset\":-1}",
            "{\"name\":\"caf\u{e9} \u{1f600}\",\"ratio\":-0.5,\"list\":[1,-2,[3,{\"deep\":null}]],\"on\":true}\n",
            "{\n  \"name\": \"pretty\",\n  \"maxItems\": 100,\n  \"minOffset\": -1\n}\n",
            "{\"name\":\"plain\",\"maxItems\":100,\"tags\":[\"a\",\"b\"]}",
            "[1, 2, -3]",
            "{\"name\": \"broken\", }",
        ];
        files.insert("/p/limits.json".into(), docs[rng.below(docs.len())].into());
    }
    if ambient {
        files.insert("/p/globals.ts".into(), "type GlobalMoney = { amount: number; currency: string };\ninterface GlobalTag { tag: string }\n".into());
    }
    if default_generic {
        files.insert("/p/pageuse.ts".into(), "import { Page } from \"./pagelib\";\nexport type UsesPage = { p: Page<string>; q?: Page<number, string> };\n".into());
        files.insert("/p/pagelib.ts".into(), format!("// paging helpers\ntype PageCursorPrivate = {{ after: string }};\n/* {} */ export type Page<T, C = PageCursorPrivate> = {{ items: T[]; cursor?: C }};\n", "-".repeat(400)));
    }
    if bare_pkg {
        let mut pkg_src = String::from("export type PkgId = string;\nexport type PkgMeta = { createdBy: PkgId; tags: string[] };\n");
        if pkg_clash {
            pkg_src.push_str("export type Receipt = { id: PkgId; paid: boolean };\n");
        }
        files.insert("/p/node_modules/shared-types/index.ts".into(), pkg_src);
    }
    Project {
        id: format!("syn_{:08x}", (seed & 0xffff_ffff) as u32),
        origin: "verif/sim/src/gen.rs synthetic_project".into(),
        origin_kind: "synthetic".into(),
        entry: "/p/entry.ts".into(),
        settings: Settings { string_formats: vec!["SfChild".into(), "SfParent".into(), "password".into()], number_formats: vec!["NfChild".into(), "NfParent".into(), "age".into()] },
        module: "esm".into(),
        files,
    }
}
