//! What a user does to files while `beff -w` runs: seeded transformations of the current SimFs.
//! swc is used only to find top-level item boundaries and names.
use crate::host::{dirname, Fs};
use crate::rng::Rng;
use swc_common::{sync::Lrc, FileName, SourceMap, Spanned};
use swc_ecma_ast::*;
use swc_ecma_parser::{parse_file_as_module, Syntax, TsSyntax};

#[derive(Clone, Debug)]
pub struct Item {
    pub lo: usize,
    pub hi: usize,
    pub kind: ItemKind,
    pub exported: bool,
    pub name: Option<String>,
    /// for imports / re-exports: byte range of the source string literal (including quotes)
    pub src: Option<(usize, usize)>,
}
#[derive(Clone, Debug, PartialEq, Eq)]
pub enum ItemKind {
    Import,
    TypeDecl,
    ValueDecl,
    ExportFrom,
    ExportDefault,
    Other,
}

pub fn syntax_for(path: &str) -> TsSyntax {
    if path.ends_with(".tsx") {
        TsSyntax { tsx: true, ..Default::default() }
    } else if path.ends_with(".d.ts") {
        TsSyntax { dts: true, ..Default::default() }
    } else {
        TsSyntax::default()
    }
}

pub fn parses(path: &str, content: &str) -> bool {
    items(path, content).is_some()
}

pub fn items(path: &str, content: &str) -> Option<Vec<Item>> {
    let cm: Lrc<SourceMap> = Default::default();
    let fm = cm.new_source_file(FileName::Custom(path.to_string()).into(), content.to_string());
    let base = fm.start_pos.0 as usize;
    let mut errs = vec![];
    let m = parse_file_as_module(&fm, Syntax::Typescript(syntax_for(path)), EsVersion::latest(), None, &mut errs).ok()?;
    let mut out = vec![];
    // swc removes a leading byte-order mark from the source it keeps
    let bom = if content.starts_with('\u{feff}') { 3 } else { 0 };
    let rel = |s: swc_common::Span| ((s.lo.0 as usize).saturating_sub(base) + bom, (s.hi.0 as usize).saturating_sub(base) + bom);
    for it in &m.body {
        let (lo, hi) = rel(it.span());
        if hi > content.len() || lo > hi || !content.is_char_boundary(lo) || !content.is_char_boundary(hi) {
            return None;
        }
        let mut item = Item { lo, hi, kind: ItemKind::Other, exported: false, name: None, src: None };
        let mut decl_info = |d: &Decl, item: &mut Item| match d {
            Decl::TsTypeAlias(t) => {
                item.kind = ItemKind::TypeDecl;
                item.name = Some(t.id.sym.to_string());
            }
            Decl::TsInterface(t) => {
                item.kind = ItemKind::TypeDecl;
                item.name = Some(t.id.sym.to_string());
            }
            Decl::TsEnum(t) => {
                item.kind = ItemKind::TypeDecl;
                item.name = Some(t.id.sym.to_string());
            }
            Decl::Var(v) => {
                item.kind = ItemKind::ValueDecl;
                if let Some(d) = v.decls.first() {
                    if let Pat::Ident(i) = &d.name {
                        item.name = Some(i.id.sym.to_string());
                    }
                }
            }
            _ => {}
        };
        match it {
            ModuleItem::ModuleDecl(ModuleDecl::Import(i)) => {
                item.kind = ItemKind::Import;
                item.src = Some(rel(i.src.span));
            }
            ModuleItem::ModuleDecl(ModuleDecl::ExportAll(e)) => {
                item.kind = ItemKind::ExportFrom;
                item.src = Some(rel(e.src.span));
            }
            ModuleItem::ModuleDecl(ModuleDecl::ExportNamed(e)) => {
                item.kind = ItemKind::ExportFrom;
                item.src = e.src.as_ref().map(|s| rel(s.span));
            }
            ModuleItem::ModuleDecl(ModuleDecl::ExportDecl(e)) => {
                item.exported = true;
                decl_info(&e.decl, &mut item);
            }
            ModuleItem::ModuleDecl(ModuleDecl::ExportDefaultDecl(_))
            | ModuleItem::ModuleDecl(ModuleDecl::ExportDefaultExpr(_)) => {
                item.kind = ItemKind::ExportDefault;
            }
            ModuleItem::Stmt(Stmt::Decl(d)) => decl_info(d, &mut item),
            _ => {}
        }
        out.push(item);
    }
    Some(out)
}

#[derive(Clone, Debug)]
pub enum Change {
    Write { f: String, content: String },
    Delete { f: String },
}

pub struct Edit {
    pub kind: &'static str,
    pub changes: Vec<Change>,
    /// the resulting content of the (first) written file is expected not to parse
    pub breaks_syntax: bool,
}

fn one(kind: &'static str, f: &str, content: String) -> Option<Edit> {
    Some(Edit { kind, changes: vec![Change::Write { f: f.to_string(), content }], breaks_syntax: false })
}

fn rel_spec(from_file: &str, to_file: &str) -> String {
    // both absolute, normalised
    let from_dir: Vec<&str> = dirname(from_file).split('/').filter(|s| !s.is_empty()).collect();
    let to: Vec<&str> = to_file.split('/').filter(|s| !s.is_empty()).collect();
    let (to_dir, to_name) = to.split_at(to.len() - 1);
    let mut i = 0;
    while i < from_dir.len() && i < to_dir.len() && from_dir[i] == to_dir[i] {
        i += 1;
    }
    let mut parts: Vec<String> = vec![];
    for _ in i..from_dir.len() {
        parts.push("..".into());
    }
    for p in &to_dir[i..] {
        parts.push(p.to_string());
    }
    let mut name = to_name[0].to_string();
    for ext in [".d.ts", ".tsx", ".ts"] {
        if let Some(s) = name.strip_suffix(ext) {
            name = s.to_string();
            break;
        }
    }
    parts.push(name);
    let j = parts.join("/");
    if j.starts_with("..") {
        j
    } else {
        format!("./{}", j)
    }
}

fn char_floor(s: &str, mut k: usize) -> usize {
    if k > s.len() {
        k = s.len();
    }
    while k > 0 && !s.is_char_boundary(k) {
        k -= 1;
    }
    k
}

pub fn char_boundary_floor(s: &str, k: usize) -> usize {
    char_floor(s, k)
}

const STRUCTURAL: &[&str] = &[
    "delete_decl", "dup_decl", "swap_decls", "move_decl", "rename_export", "toggle_export",
    "retarget_import", "add_export_star", "second_default", "alias_wrap", "flip_primitive",
    "add_property", "append_type",
];
const DAMAGE: &[&str] = &["truncate", "drop_line", "stray_token", "unbalance", "garbage"];

pub const ALL_EDIT_KINDS: &[&str] = &[
    "delete_decl", "dup_decl", "swap_decls", "move_decl", "rename_export", "toggle_export",
    "retarget_import", "add_export_star", "second_default", "alias_wrap", "flip_primitive",
    "add_property", "append_type", "truncate", "drop_line", "stray_token", "unbalance", "garbage",
    "foreign_content", "revert", "create_file", "delete_file", "touch", "shadow_file", "package_shadow", "case_twin", "reformat_eol", "redoc",
];

pub struct EditCtx<'a> {
    /// earlier versions of files in this run (for reverts)
    pub versions: &'a std::collections::BTreeMap<String, Vec<String>>,
    /// same-named files from other corpus projects
    pub foreign: &'a dyn Fn(&mut Rng, &str) -> Option<String>,
    /// which kinds are enabled in this run (swarm)
    pub enabled: &'a [&'static str],
    pub entry: &'a str,
}

/// Pick and apply one enabled edit. Returns None if the picked edit does not apply (caller retries).
pub fn random_edit(fs: &Fs, rng: &mut Rng, ctx: &EditCtx) -> Option<Edit> {
    if ctx.enabled.is_empty() || fs.is_empty() {
        return None;
    }
    let kind = *rng.pick(ctx.enabled);
    let files: Vec<&String> = fs.keys().collect();
    let f = (*rng.pick(&files)).clone();
    let content = fs.get(&f).unwrap().clone();
    apply_edit(kind, fs, &f, &content, rng, ctx)
}

pub fn apply_edit(kind: &'static str, fs: &Fs, f: &str, content: &str, rng: &mut Rng, ctx: &EditCtx) -> Option<Edit> {
    if STRUCTURAL.contains(&kind) {
        let its = items(f, content)?;
        return structural(kind, fs, f, content, &its, rng);
    }
    if DAMAGE.contains(&kind) {
        let mut e = damage(kind, f, content, rng)?;
        if let Change::Write { content: c, .. } = &e.changes[0] {
            e.breaks_syntax = !parses(f, c);
        }
        return Some(e);
    }
    match kind {
        "foreign_content" => {
            let c = (ctx.foreign)(rng, f)?;
            if c == content {
                return None;
            }
            one("foreign_content", f, c)
        }
        "revert" => {
            let vs = ctx.versions.get(f)?;
            let cands: Vec<&String> = vs.iter().filter(|v| v.as_str() != content).collect();
            if cands.is_empty() {
                return None;
            }
            one("revert", f, (*rng.pick(&cands)).clone())
        }
        "touch" => one("touch", f, content.to_string()),
        "redoc" => {
            // a save that changes doc comments only (or adds the first one)
            let new = crate::gen::doc_rewrite(content, rng.below(7));
            if new == content {
                return None;
            }
            one("redoc", f, new)
        }
        "reformat_eol" => {
            // the same declarations with other line ends / byte order mark / end of file: every
            // byte position in the file moves, nothing else does
            let bom = '\u{feff}';
            let new = match rng.below(7) {
                // tabs where blanks were (a tab is one character and several display columns)
                5 => content.replace("  ", "\t").replace(": ", ":\t").replace("= ", "=\t"),
                // wide characters earlier on the line (one character, two display columns)
                6 => content.replace(": ", ": /*\u{5168}\u{89d2}*/ ").replace("= ", "= /*\u{8868}*/ "),
                0 => content.replace("\r\n", "\n").replace('\n', "\r\n"),
                1 => content.replace("\r\n", "\n"),
                2 => {
                    if content.starts_with(bom) {
                        content[bom.len_utf8()..].to_string()
                    } else {
                        format!("{}{}", bom, content)
                    }
                }
                3 => content.trim_end().to_string(),
                _ => format!("\n\n{}\n\n", content),
            };
            if new == content {
                return None;
            }
            one("reformat_eol", f, new)
        }
        "create_file" => {
            // a new module that somebody may or may not import later
            let dir = dirname(f);
            let name = format!("{}/new{}.ts", if dir == "/" { "" } else { dir }, rng.below(3));
            if fs.contains_key(&name) {
                return None;
            }
            let body = format!("export type New{} = {{ created: true; n: number }};\n", rng.below(3));
            one("create_file", &name, body)
        }
        "shadow_file" => {
            // x.ts <-> x/index.ts <-> x.d.ts : a new file that starts to shadow (or to be shadowed by)
            // an existing module, with different content
            if !(f.ends_with(".ts") && !f.ends_with(".d.ts")) {
                return None;
            }
            let stem = f.strip_suffix(".ts")?;
            let target = match rng.below(3) {
                0 => {
                    if let Some(dir) = stem.strip_suffix("/index") {
                        format!("{}.ts", dir)
                    } else {
                        format!("{}/index.ts", stem)
                    }
                }
                1 => format!("{}.d.ts", stem),
                _ => format!("{}.tsx", stem),
            };
            if fs.contains_key(&target) || target == ctx.entry {
                return None;
            }
            // same exports, one property more: resolution decides which one is seen
            let body = content.replacen('{', "{ shadow_marker?: true; ", 1);
            one("shadow_file", &target, body)
        }
        "case_twin" => {
            // a second file whose path differs from an existing one only in letter case
            // (legal on case-sensitive file systems), with different content
            let name = f.rsplit('/').next()?;
            let twin_name: String = if name.chars().next()?.is_lowercase() {
                let mut c = name.chars();
                let first = c.next()?.to_uppercase().to_string();
                format!("{}{}", first, c.as_str())
            } else {
                name.to_lowercase()
            };
            if twin_name == name {
                return None;
            }
            let dir = dirname(f);
            let target = format!("{}/{}", if dir == "/" { "" } else { dir }, twin_name);
            if fs.contains_key(&target) {
                return None;
            }
            let body = content.replacen('{', "{ case_twin_marker?: 1; ", 1);
            one("case_twin", &target, body)
        }
        "package_shadow" => {
            // a package that is imported by a bare specifier gets a second copy that now wins the
            // node_modules lookup (pkg.ts next to pkg/index.ts, or a nested node_modules closer to
            // the importer), with a different definition
            let pkgs: Vec<&String> = fs.keys().filter(|k| k.contains("/node_modules/") && k.ends_with("/index.ts")).collect();
            if pkgs.is_empty() {
                return None;
            }
            let pkg_index = (*rng.pick(&pkgs)).clone();
            let pkg_dir = pkg_index.strip_suffix("/index.ts")?.to_string();
            let pkg_name = pkg_dir.rsplit('/').next()?.to_string();
            let body = fs.get(&pkg_index)?.replace("string", "number");
            let target = if rng.chance(1, 2) {
                format!("{}.ts", pkg_dir)
            } else {
                // nested node_modules next to some importing file
                let dir = dirname(f);
                format!("{}/node_modules/{}/index.ts", if dir == "/" { "" } else { dir }, pkg_name)
            };
            if fs.contains_key(&target) || target.contains("/node_modules/node_modules/") || target.matches("/node_modules/").count() > 1 && !target.ends_with(&format!("{}.ts", pkg_name)) {
                return None;
            }
            one("package_shadow", &target, body)
        }
        "delete_file" => {
            if f == ctx.entry && !rng.chance(1, 8) {
                return None;
            }
            Some(Edit { kind: "delete_file", changes: vec![Change::Delete { f: f.to_string() }], breaks_syntax: false })
        }
        _ => None,
    }
}

fn splice(content: &str, lo: usize, hi: usize, with: &str) -> String {
    format!("{}{}{}", &content[..lo], with, &content[hi..])
}

fn structural(kind: &'static str, fs: &Fs, f: &str, content: &str, its: &[Item], rng: &mut Rng) -> Option<Edit> {
    if its.is_empty() && kind != "append_type" && kind != "add_export_star" {
        return None;
    }
    match kind {
        "delete_decl" => {
            let it = rng.pick(its);
            one(kind, f, splice(content, it.lo, it.hi, ""))
        }
        "dup_decl" => {
            let it = rng.pick(its);
            let text = &content[it.lo..it.hi];
            one(kind, f, splice(content, it.hi, it.hi, &format!("\n{}", text)))
        }
        "swap_decls" => {
            if its.len() < 2 {
                return None;
            }
            let a = rng.below(its.len());
            let mut b = rng.below(its.len());
            if a == b {
                b = (a + 1) % its.len();
            }
            let (a, b) = (a.min(b), a.max(b));
            let (ia, ib) = (&its[a], &its[b]);
            if ia.hi > ib.lo {
                return None;
            }
            let s = format!(
                "{}{}{}{}{}",
                &content[..ia.lo],
                &content[ib.lo..ib.hi],
                &content[ia.hi..ib.lo],
                &content[ia.lo..ia.hi],
                &content[ib.hi..]
            );
            one(kind, f, s)
        }
        "move_decl" => {
            let cands: Vec<&Item> = its.iter().filter(|i| i.kind == ItemKind::TypeDecl && i.name.is_some()).collect();
            if cands.is_empty() {
                return None;
            }
            let it = *rng.pick(&cands);
            let name = it.name.clone().unwrap();
            let dir = dirname(f);
            let dirp = if dir == "/" { "" } else { dir };
            // target: an existing sibling or a new file
            let siblings: Vec<&String> = fs.keys().filter(|k| k.as_str() != f && dirname(k) == dir && k.ends_with(".ts") && !k.ends_with(".d.ts")).collect();
            let target = if !siblings.is_empty() && rng.chance(1, 2) {
                (*rng.pick(&siblings)).clone()
            } else {
                format!("{}/moved_{}.ts", dirp, name.to_lowercase())
            };
            let text = &content[it.lo..it.hi];
            let moved = if it.exported { text.to_string() } else { format!("export {}", text) };
            let import = format!("import {{ {} }} from \"{}\";\n", name, rel_spec(f, &target));
            let reexport = if it.exported { format!("export {{ {} }};\n", name) } else { String::new() };
            let new_src = format!("{}{}{}", import, reexport, splice(content, it.lo, it.hi, ""));
            let tgt_old = fs.get(&target).cloned().unwrap_or_default();
            let new_tgt = format!("{}{}{}\n", tgt_old, if tgt_old.is_empty() || tgt_old.ends_with('\n') { "" } else { "\n" }, moved);
            Some(Edit {
                kind,
                changes: vec![
                    Change::Write { f: target, content: new_tgt },
                    Change::Write { f: f.to_string(), content: new_src },
                ],
                breaks_syntax: false,
            })
        }
        "rename_export" => {
            let cands: Vec<&Item> = its.iter().filter(|i| i.exported && i.name.is_some()).collect();
            if cands.is_empty() {
                return None;
            }
            let it = *rng.pick(&cands);
            let name = it.name.clone().unwrap();
            let text = &content[it.lo..it.hi];
            let pos = text.find(&name)?;
            let new_text = format!("{}{}Renamed{}", &text[..pos], name, &text[pos + name.len()..]);
            one(kind, f, splice(content, it.lo, it.hi, &new_text))
        }
        "toggle_export" => {
            let cands: Vec<&Item> = its.iter().filter(|i| matches!(i.kind, ItemKind::TypeDecl | ItemKind::ValueDecl)).collect();
            if cands.is_empty() {
                return None;
            }
            let it = *rng.pick(&cands);
            let text = &content[it.lo..it.hi];
            let new_text = if it.exported {
                text.strip_prefix("export")?.trim_start().to_string()
            } else {
                format!("export {}", text)
            };
            one(kind, f, splice(content, it.lo, it.hi, &new_text))
        }
        "retarget_import" => {
            let cands: Vec<&Item> = its.iter().filter(|i| i.src.is_some()).collect();
            if cands.is_empty() {
                return None;
            }
            let it = *rng.pick(&cands);
            let (lo, hi) = it.src.unwrap();
            let others: Vec<&String> = fs.keys().filter(|k| k.as_str() != f).collect();
            let spec = if !others.is_empty() && rng.chance(2, 3) {
                rel_spec(f, *rng.pick(&others))
            } else {
                "./does_not_exist".to_string()
            };
            one(kind, f, splice(content, lo, hi, &format!("\"{}\"", spec)))
        }
        "add_export_star" => {
            let others: Vec<&String> = fs.keys().filter(|k| k.as_str() != f).collect();
            if others.is_empty() {
                return None;
            }
            let spec = rel_spec(f, *rng.pick(&others));
            one(kind, f, format!("{}\nexport * from \"{}\";\n", content, spec))
        }
        "second_default" => {
            let cands: Vec<&Item> = its.iter().filter(|i| i.name.is_some()).collect();
            if cands.is_empty() {
                return None;
            }
            let n = rng.pick(&cands).name.clone().unwrap();
            let form = if rng.chance(1, 2) { format!("\nexport default {};\n", n) } else { format!("\nexport {{ {} as default }};\n", n) };
            one(kind, f, format!("{}{}", content, form))
        }
        "alias_wrap" => {
            // type X = T  ==>  type X__w = T; type X = X__w;   (alias chain)
            let cands: Vec<&Item> = its
                .iter()
                .filter(|i| i.kind == ItemKind::TypeDecl && i.name.is_some() && {
                    let t = &content[i.lo..i.hi];
                    let t = t.strip_prefix("export").map(|x| x.trim_start()).unwrap_or(t);
                    t.starts_with("type ") && !t[..t.find('=').unwrap_or(t.len())].contains('<')
                })
                .collect();
            if cands.is_empty() {
                return None;
            }
            let it = *rng.pick(&cands);
            let name = it.name.clone().unwrap();
            let text = &content[it.lo..it.hi];
            let eq = text.find('=')?;
            let depth = rng.range(1, 3);
            // a fresh stem per application: wrapping twice must not produce `type X__w0 = X__w0`
            let name_w = format!("{}_{:x}", name, rng.next() & 0xffff);
            let mut decls = format!("type {}__w0 {}", name_w, &text[eq..]);
            if !decls.trim_end().ends_with(';') {
                decls.push(';');
            }
            for d in 1..depth {
                decls.push_str(&format!("\ntype {}__w{} = {}__w{};", name_w, d, name_w, d - 1));
            }
            let head = &text[..eq];
            let new_text = format!("{}\n{}= {}__w{};", decls, head, name_w, depth - 1);
            one(kind, f, splice(content, it.lo, it.hi, &new_text))
        }
        "flip_primitive" => {
            // change one primitive keyword inside a type declaration: a valid edit that changes output
            let words = ["string", "number", "boolean"];
            let mut occ = vec![];
            for it in its.iter().filter(|i| i.kind == ItemKind::TypeDecl) {
                let text = &content[it.lo..it.hi];
                for w in words {
                    let mut start = 0;
                    while let Some(p) = text[start..].find(w) {
                        let abs = it.lo + start + p;
                        let before = content[..abs].chars().last();
                        let after = content[abs + w.len()..].chars().next();
                        let idc = |c: Option<char>| c.map(|c| c.is_alphanumeric() || c == '_' || c == '"' || c == '\'').unwrap_or(false);
                        if !idc(before) && !idc(after) {
                            occ.push((abs, w));
                        }
                        start += p + w.len();
                    }
                }
            }
            if occ.is_empty() {
                return None;
            }
            let (abs, w) = *rng.pick(&occ);
            let repl = words[(words.iter().position(|x| *x == w).unwrap() + 1 + rng.below(2)) % 3];
            one(kind, f, splice(content, abs, abs + w.len(), repl))
        }
        "add_property" => {
            // insert a property after the first '{' of an object-like type declaration
            let cands: Vec<&Item> = its.iter().filter(|i| i.kind == ItemKind::TypeDecl && content[i.lo..i.hi].contains('{') && !content[i.lo..i.hi].trim_start_matches("export").trim_start().starts_with("enum")).collect();
            if cands.is_empty() {
                return None;
            }
            let it = *rng.pick(&cands);
            let p = it.lo + content[it.lo..it.hi].find('{')? + 1;
            let prop = ["added_s: string;", "added_n?: number;", "added_l: \"lit\";", "added_a: boolean[];"][rng.below(4)];
            one(kind, f, splice(content, p, p, &format!(" {} ", prop)))
        }
        "append_type" => {
            let n = rng.below(4);
            one(kind, f, format!("{}\nexport type Appended{} = {{ k: {}; v: string[] }};\n", content, n, n))
        }
        _ => None,
    }
}

fn damage(kind: &'static str, f: &str, content: &str, rng: &mut Rng) -> Option<Edit> {
    if content.is_empty() {
        return None;
    }
    match kind {
        "truncate" => {
            // offset classes: start, inside, after the last token
            let k = match rng.below(6) {
                0 => rng.below(content.len().min(4) + 1),
                1 => content.trim_end().len().saturating_sub(rng.below(3)),
                _ => rng.below(content.len()),
            };
            one(kind, f, content[..char_floor(content, k)].to_string())
        }
        "drop_line" => {
            let lines: Vec<&str> = content.split('\n').collect();
            if lines.len() < 2 {
                return None;
            }
            let i = rng.below(lines.len());
            let v: Vec<&str> = lines.iter().enumerate().filter(|(j, _)| *j != i).map(|(_, l)| *l).collect();
            one(kind, f, v.join("\n"))
        }
        "stray_token" => {
            let toks = ["}", "{", ")", "<", ">>", "=", "type", "`", "\"", "/*", "@", "#", "export", "import", "=>", "|", "&", "?", ";;", "\u{0}", "\u{feff}", "é"];
            let k = char_floor(content, rng.below(content.len() + 1));
            one(kind, f, splice(content, k, k, &format!(" {} ", rng.pick(&toks))))
        }
        "unbalance" => {
            let idx: Vec<usize> = content.char_indices().filter(|(_, c)| "{}()[]<>".contains(*c)).map(|(i, _)| i).collect();
            if idx.is_empty() {
                return None;
            }
            let i = *rng.pick(&idx);
            one(kind, f, splice(content, i, i + 1, ""))
        }
        "garbage" => {
            let variants = ["", "\n", "}", "export", "type X =", "import { A } from", "/* open", "`tpl ${", "<<<<<<< HEAD\n", "\u{feff}"];
            one(kind, f, rng.pick(&variants).to_string())
        }
        _ => None,
    }
}

// ---------------------------------------------------------------------------------------------
// Input feature used to identify known finding KF-C04-4: a type-alias cycle with no type
// constructor in between (`type A = A`, `type A = B; type B = A`, `type A = A | "x"`).
// ---------------------------------------------------------------------------------------------
#[derive(Clone, Debug)]
enum DirectRef {
    Local(String),
    /// `import("spec").Name` (Some) or `import("spec")` = the default export (None)
    Import(String, Option<String>),
}

fn direct_refs(t: &TsType, out: &mut Vec<DirectRef>) {
    match t {
        TsType::TsTypeRef(r) => {
            if let TsEntityName::Ident(i) = &r.type_name {
                out.push(DirectRef::Local(i.sym.to_string()));
            }
        }
        TsType::TsImportType(i) => {
            let spec = i.arg.value.to_string_lossy().to_string();
            match &i.qualifier {
                None => out.push(DirectRef::Import(spec, None)),
                Some(TsEntityName::Ident(q)) => out.push(DirectRef::Import(spec, Some(q.sym.to_string()))),
                _ => {}
            }
        }
        TsType::TsUnionOrIntersectionType(TsUnionOrIntersectionType::TsUnionType(u)) => {
            for m in &u.types {
                direct_refs(m, out);
            }
        }
        TsType::TsUnionOrIntersectionType(TsUnionOrIntersectionType::TsIntersectionType(u)) => {
            for m in &u.types {
                direct_refs(m, out);
            }
        }
        TsType::TsParenthesizedType(p) => direct_refs(&p.type_ann, out),
        TsType::TsTypeOperator(o) => direct_refs(&o.type_ann, out),
        TsType::TsIndexedAccessType(i) => direct_refs(&i.obj_type, out),
        TsType::TsOptionalType(o) => direct_refs(&o.type_ann, out),
        _ => {}
    }
}

pub fn noncontractive_alias_cycle(fs: &Fs) -> Option<(String, String)> {
    use std::collections::{BTreeMap, BTreeSet};
    // (file, alias) -> direct refs ; (file, local) -> (spec, original) ; file -> default export name
    let mut aliases: BTreeMap<(String, String), Vec<DirectRef>> = BTreeMap::new();
    let mut imports: BTreeMap<(String, String), (String, String)> = BTreeMap::new();
    let mut defaults: BTreeMap<String, String> = BTreeMap::new();
    // (file, exported name) -> (specifier, original name) for `export { a as b } from "./x"`
    let mut reexports: BTreeMap<(String, String), (String, String)> = BTreeMap::new();
    for (path, content) in fs {
        let cm: Lrc<SourceMap> = Default::default();
        let fm = cm.new_source_file(FileName::Custom(path.to_string()).into(), content.to_string());
        let mut errs = vec![];
        let Ok(m) = parse_file_as_module(&fm, Syntax::Typescript(syntax_for(path)), EsVersion::latest(), None, &mut errs) else { continue };
        for it in &m.body {
            let decl = match it {
                ModuleItem::ModuleDecl(ModuleDecl::ExportDecl(e)) => Some(&e.decl),
                ModuleItem::Stmt(Stmt::Decl(d)) => Some(d),
                _ => None,
            };
            if let Some(Decl::TsTypeAlias(a)) = decl {
                let mut refs = vec![];
                direct_refs(&a.type_ann, &mut refs);
                // later declarations of the same name win in beff's symbol tables
                aliases.insert((path.clone(), a.id.sym.to_string()), refs);
            }
            match it {
                ModuleItem::ModuleDecl(ModuleDecl::Import(i)) => {
                    for s in &i.specifiers {
                        match s {
                            ImportSpecifier::Named(n) => {
                                let orig = match &n.imported {
                                    Some(ModuleExportName::Ident(x)) => x.sym.to_string(),
                                    _ => n.local.sym.to_string(),
                                };
                                imports.insert((path.clone(), n.local.sym.to_string()), (i.src.value.to_string_lossy().to_string(), orig));
                            }
                            ImportSpecifier::Default(d) => {
                                imports.insert((path.clone(), d.local.sym.to_string()), (i.src.value.to_string_lossy().to_string(), "default".to_string()));
                            }
                            _ => {}
                        }
                    }
                }
                ModuleItem::ModuleDecl(ModuleDecl::ExportDefaultExpr(e)) => {
                    if let Expr::Ident(i) = &*e.expr {
                        defaults.entry(path.clone()).or_insert(i.sym.to_string());
                    }
                }
                ModuleItem::ModuleDecl(ModuleDecl::ExportNamed(n)) if n.src.is_some() => {
                    let spec = n.src.as_ref().unwrap().value.to_string_lossy().to_string();
                    for s in &n.specifiers {
                        if let ExportSpecifier::Named(x) = s {
                            let orig = match &x.orig {
                                ModuleExportName::Ident(o) => o.sym.to_string(),
                                _ => continue,
                            };
                            let exported = match &x.exported {
                                Some(ModuleExportName::Ident(e)) => e.sym.to_string(),
                                _ => orig.clone(),
                            };
                            reexports.insert((path.clone(), exported), (spec.clone(), orig));
                        }
                    }
                }
                ModuleItem::ModuleDecl(ModuleDecl::ExportNamed(n)) if n.src.is_none() => {
                    for s in &n.specifiers {
                        if let ExportSpecifier::Named(x) = s {
                            let exported = match &x.exported {
                                Some(ModuleExportName::Ident(e)) => e.sym.to_string(),
                                _ => continue,
                            };
                            if exported == "default" {
                                if let ModuleExportName::Ident(o) = &x.orig {
                                    defaults.entry(path.clone()).or_insert(o.sym.to_string());
                                }
                            }
                        }
                    }
                }
                _ => {}
            }
        }
    }
    let in_file = |g: &str, name: &str| -> Option<(String, String)> {
        // follow `export { x as y } from` links (bounded), then `default` -> the local it names
        let (mut g, mut name) = (g.to_string(), name.to_string());
        for _ in 0..8 {
            match reexports.get(&(g.clone(), name.clone())) {
                Some((spec, orig)) => {
                    let h = crate::host::resolve_in(fs, &g, spec)?;
                    g = h;
                    name = orig.clone();
                }
                None => break,
            }
        }
        let name = if name == "default" { defaults.get(&g)?.clone() } else { name };
        if aliases.contains_key(&(g.clone(), name.clone())) {
            Some((g, name))
        } else {
            None
        }
    };
    let target = |file: &str, r: &DirectRef| -> Option<(String, String)> {
        match r {
            DirectRef::Local(name) => {
                if aliases.contains_key(&(file.to_string(), name.clone())) {
                    return Some((file.to_string(), name.clone()));
                }
                let (spec, orig) = imports.get(&(file.to_string(), name.clone()))?;
                let g = crate::host::resolve_in(fs, file, spec)?;
                in_file(&g, orig)
            }
            DirectRef::Import(spec, q) => {
                let g = crate::host::resolve_in(fs, file, spec)?;
                in_file(&g, q.as_deref().unwrap_or("default"))
            }
        }
    };
    for start in aliases.keys() {
        let mut seen: BTreeSet<(String, String)> = BTreeSet::new();
        let mut todo = vec![start.clone()];
        while let Some(n) = todo.pop() {
            for r in aliases.get(&n).map(|v| v.as_slice()).unwrap_or(&[]) {
                if let Some(t) = target(&n.0, r) {
                    if t == *start {
                        return Some(start.clone());
                    }
                    if seen.insert(t.clone()) {
                        todo.push(t);
                    }
                }
            }
        }
    }
    None
}

// ---------------------------------------------------------------------------------------------
// Names requested in `buildParsers<{ A: ..., B: ... }>()` (None when the argument is not a literal)
// ---------------------------------------------------------------------------------------------
pub fn build_parsers_keys(path: &str, content: &str) -> Option<Vec<String>> {
    use swc_ecma_visit::{Visit, VisitWith};
    struct V(Option<Vec<String>>, u32);
    impl Visit for V {
        fn visit_call_expr(&mut self, n: &CallExpr) {
            let name = match &n.callee {
                Callee::Expr(e) => match &**e {
                    Expr::Ident(i) => Some(i.sym.to_string()),
                    Expr::Member(m) => match &m.prop {
                        MemberProp::Ident(i) => Some(i.sym.to_string()),
                        _ => None,
                    },
                    _ => None,
                },
                _ => None,
            };
            if name.as_deref() == Some("buildParsers") {
                self.1 += 1;
                if let Some(args) = &n.type_args {
                    if let Some(first) = args.params.first() {
                        if let TsType::TsTypeLit(l) = &**first {
                            let mut keys = vec![];
                            for m in &l.members {
                                if let TsTypeElement::TsPropertySignature(p) = m {
                                    match &*p.key {
                                        Expr::Ident(i) => keys.push(i.sym.to_string()),
                                        Expr::Lit(Lit::Str(s)) => keys.push(s.value.to_string_lossy().to_string()),
                                        _ => return,
                                    }
                                } else {
                                    return;
                                }
                            }
                            self.0 = Some(keys);
                        }
                    }
                }
            }
            n.visit_children_with(self);
        }
    }
    let cm: Lrc<SourceMap> = Default::default();
    let fm = cm.new_source_file(FileName::Custom(path.to_string()).into(), content.to_string());
    let mut errs = vec![];
    let m = parse_file_as_module(&fm, Syntax::Typescript(syntax_for(path)), EsVersion::latest(), None, &mut errs).ok()?;
    let mut v = V(None, 0);
    m.visit_with(&mut v);
    if v.1 == 1 {
        v.0
    } else {
        None
    }
}
