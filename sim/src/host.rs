//! Seams: hash randomness (getrandom interposition), file system, resolver, host functions.
use beff_wasm::verif_host::Host;
use std::cell::RefCell;
use std::collections::{BTreeMap, BTreeSet};
use std::rc::Rc;
use std::sync::atomic::{AtomicU64, AtomicUsize, Ordering};

// ---------------------------------------------------------------------------------------------
// Hash randomness. std's RandomState draws its per-thread keys once, through the libc symbol
// `getrandom`; defining that symbol in the binary interposes it.  Every simulated process is a
// fresh thread that forces the draw as its first action while KEY_SEED holds its seed, and
// exactly one thread runs at any time, so the OS scheduler decides nothing.
// ---------------------------------------------------------------------------------------------
static KEY_SEED: AtomicU64 = AtomicU64::new(0x1234_5678_9abc_def0);
pub static GETRANDOM_CALLS: AtomicUsize = AtomicUsize::new(0);

#[no_mangle]
pub unsafe extern "C" fn getrandom(buf: *mut u8, len: usize, _flags: u32) -> isize {
    GETRANDOM_CALLS.fetch_add(1, Ordering::SeqCst);
    let mut s = KEY_SEED.load(Ordering::SeqCst);
    for i in 0..len {
        let v = crate::rng::splitmix64(&mut s);
        *buf.add(i) = (v >> 24) as u8;
    }
    // advance, so that two draws in the same simulated process differ, deterministically
    KEY_SEED.store(s, Ordering::SeqCst);
    len as isize
}

/// Must be the first thing a simulated process does.
pub fn seed_this_thread_hash_keys(seed: u64) {
    KEY_SEED.store(seed ^ 0xA5A5_5A5A_C3C3_3C3C, Ordering::SeqCst);
    let _force = std::collections::hash_map::RandomState::new();
}

/// Self-test used by `setup`: the interposition is effective and order differs between seeds.
pub fn selftest_hash_keys() -> Result<(), String> {
    fn order(seed: u64) -> Vec<u32> {
        std::thread::spawn(move || {
            seed_this_thread_hash_keys(seed);
            let mut m = std::collections::HashMap::new();
            for i in 0..64u32 {
                m.insert(i, ());
            }
            m.keys().cloned().collect::<Vec<_>>()
        })
        .join()
        .unwrap()
    }
    let a1 = order(1);
    let a2 = order(1);
    let b = order(2);
    if a1 != a2 {
        return Err("same hash seed gave different HashMap iteration orders".into());
    }
    if a1 == b {
        return Err("different hash seeds gave the same HashMap iteration order (interposition ineffective)".into());
    }
    Ok(())
}

// ---------------------------------------------------------------------------------------------
// File system and resolver model
// ---------------------------------------------------------------------------------------------
pub type Fs = BTreeMap<String, String>;

pub fn normalize(path: &str) -> String {
    let mut out: Vec<&str> = vec![];
    for part in path.split('/') {
        match part {
            "" | "." => {}
            ".." => {
                out.pop();
            }
            p => out.push(p),
        }
    }
    format!("/{}", out.join("/"))
}

pub fn dirname(path: &str) -> &str {
    match path.rfind('/') {
        Some(0) => "/",
        Some(i) => &path[..i],
        None => "",
    }
}

const TS_EXTS: [&str; 3] = [".ts", ".tsx", ".d.ts"];

/// Stateless model of TypeScript's relative module resolution as used by bundler.ts
/// (`resolveModuleName` with a host that only knows `fileExists`/`readFile`).
/// Bare specifiers ("@beff/client", "zod") do not resolve: the simulated projects have no
/// node_modules.
pub fn resolve_in(fs: &Fs, current_file: &str, spec: &str) -> Option<String> {
    let relative = spec == "." || spec == ".." || spec.starts_with("./") || spec.starts_with("../");
    let base = if relative {
        normalize(&format!("{}/{}", dirname(current_file), spec))
    } else if spec.starts_with('/') {
        normalize(spec)
    } else {
        // bare specifier: node_modules lookup, walking up from the importing file's directory
        let mut dir = dirname(current_file).to_string();
        loop {
            let base = format!("{}/node_modules/{}", if dir == "/" { "" } else { &dir }, spec);
            for ext in TS_EXTS {
                let c = format!("{}{}", base, ext);
                if fs.contains_key(&c) {
                    return Some(c);
                }
            }
            for ext in TS_EXTS {
                let c = format!("{}/index{}", base, ext);
                if fs.contains_key(&c) {
                    return Some(c);
                }
            }
            if dir == "/" || dir.is_empty() {
                return None;
            }
            dir = dirname(&dir).to_string();
        }
    };
    let trailing_slash = spec.ends_with('/') || spec == "." || spec == "..";
    // a JSON module named as written (the simulated project has `resolveJsonModule` switched on)
    if !trailing_slash && base.ends_with(".json") && fs.contains_key(&base) {
        return Some(base);
    }
    if !trailing_slash {
        for ext in TS_EXTS {
            let c = format!("{}{}", base, ext);
            if fs.contains_key(&c) {
                return Some(c);
            }
        }
        // "./x.js" -> x.ts, x.tsx, x.d.ts ; "./x.ts" -> x.ts
        for (from, tos) in [
            (".js", &[".ts", ".tsx", ".d.ts"][..]),
            (".jsx", &[".tsx", ".d.ts"][..]),
            (".mjs", &[".mts", ".d.mts"][..]),
            // an explicit TypeScript extension is stripped and the usual candidates are tried in
            // their usual order (seen with the real resolver, js/hostprobe.mjs)
            // (the file named as written comes first)
            (".d.ts", &[".d.ts", ".ts", ".tsx"][..]),
            (".ts", &[".ts", ".tsx", ".d.ts"][..]),
            (".tsx", &[".tsx", ".ts", ".d.ts"][..]),
        ] {
            if let Some(stem) = base.strip_suffix(from) {
                for to in tos {
                    let c = format!("{}{}", stem, to);
                    if fs.contains_key(&c) {
                        return Some(c);
                    }
                }
                break;
            }
        }
    }
    for ext in TS_EXTS {
        let c = format!("{}/index{}", if base == "/" { "" } else { &base }, ext);
        if fs.contains_key(&c) {
            return Some(c);
        }
    }
    None
}

// ---------------------------------------------------------------------------------------------
// Host state shared between the simulation loop and the Host object installed in beff-wasm
// ---------------------------------------------------------------------------------------------
#[derive(Default)]
pub struct HostState {
    pub fs: Fs,
    /// last thing the session was told about a file: Some(content) or None (asked, got nothing)
    pub session_view: BTreeMap<String, Option<String>>,
    /// result of every resolve call made for `cur` since `cur` was last handed to the session
    pub resolve_log: BTreeMap<(String, String), Option<String>>,
    /// (cur) for which a resolve fault fired since `cur` was last handed to the session
    pub resolve_fault_tainted: BTreeSet<String>,
    pub emitted: Vec<String>,
    pub read_fault: BTreeSet<String>,
    pub resolve_fault: BTreeSet<String>,
    pub files_read: BTreeSet<String>,
    pub n_reads: u64,
    pub n_resolves: u64,
    pub fired_read_error: u64,
    pub fired_resolve_error: u64,
    pub fired_enoent: u64,
    /// bundler.ts keeps every positive answer of resolve_import for the life of the Node process
    /// (`resolvedCache`); mirrored here when the host probe (js/hostprobe.mjs) saw the working
    /// tree's host behave that way.  A simulated process starts with an empty cache.
    pub js_positive_cache: Option<BTreeMap<(String, String), String>>,
    pub js_cache_hits_that_differ_from_disk: u64,
}

/// What the host probe learned about the JavaScript host of the working tree.
#[derive(serde::Deserialize, Default, Clone, Debug)]
pub struct HostModel {
    #[serde(default)]
    pub characterised: bool,
    #[serde(default)]
    pub positive_resolution_cache: bool,
    #[serde(default)]
    pub negative_resolution_cache: bool,
}
pub fn host_model() -> &'static HostModel {
    static M: std::sync::OnceLock<HostModel> = std::sync::OnceLock::new();
    M.get_or_init(|| {
        let p = format!("{}/out/host_model.json", std::env::var("VERIF_HOME").unwrap_or_else(|_| "/verif".into()));
        std::fs::read_to_string(p).ok().and_then(|s| serde_json::from_str(&s).ok()).unwrap_or_default()
    })
}
pub fn new_host_state(fs: Fs) -> HostState {
    HostState { fs, js_positive_cache: if host_model().positive_resolution_cache { Some(BTreeMap::new()) } else { None }, ..Default::default() }
}

impl HostState {
    pub fn handed(&mut self, f: &str, content: Option<String>) {
        // a new version of `f` is (about to be) parsed: its recorded resolutions are void
        let keys: Vec<_> = self
            .resolve_log
            .keys()
            .filter(|(c, _)| c == f)
            .cloned()
            .collect();
        for k in keys {
            self.resolve_log.remove(&k);
        }
        self.resolve_fault_tainted.remove(f);
        self.session_view.insert(f.to_string(), content);
    }
}

pub type Shared = Rc<RefCell<HostState>>;

pub struct SimHost(pub Shared);

impl Host for SimHost {
    fn read_file_content(&mut self, file_name: &str) -> Option<String> {
        let mut st = self.0.borrow_mut();
        st.n_reads += 1;
        let r = if st.read_fault.contains(file_name) && st.fs.contains_key(file_name) {
            st.fired_read_error += 1;
            None
        } else {
            st.fs.get(file_name).cloned()
        };
        if r.is_none() && !st.fs.contains_key(file_name) {
            st.fired_enoent += 1;
        }
        if r.is_some() {
            st.files_read.insert(file_name.to_string());
        }
        if r.is_some() {
            st.handed(file_name, r.clone());
        } else {
            // a read that fails leaves nothing behind in the session (nothing is cached, the next
            // build asks again): the session knows nothing about this file
            st.handed(file_name, None);
            st.session_view.remove(file_name);
        }
        r
    }
    fn resolve_import(&mut self, current_file: &str, specifier: &str) -> Option<String> {
        let mut st = self.0.borrow_mut();
        st.n_resolves += 1;
        let key = (current_file.to_string(), specifier.to_string());
        if let Some(hit) = st.js_positive_cache.as_ref().and_then(|c| c.get(&key)).cloned() {
            if resolve_in(&st.fs, current_file, specifier).as_ref() != Some(&hit) {
                st.js_cache_hits_that_differ_from_disk += 1;
            }
            st.resolve_log.entry(key).or_insert_with(|| Some(hit.clone()));
            return Some(hit);
        }
        let truth = resolve_in(&st.fs, current_file, specifier);
        let r = if st.resolve_fault.contains(current_file) && truth.is_some() {
            st.fired_resolve_error += 1;
            st.resolve_fault_tainted.insert(current_file.to_string());
            None
        } else {
            truth
        };
        // first answer since `current_file` was last handed over = the parse-time answer that is
        // frozen into the cached module; later (extraction-time) calls re-resolve on every build
        st.resolve_log
            .entry((current_file.to_string(), specifier.to_string()))
            .or_insert_with(|| r.clone());
        if let (Some(ans), Some(cache)) = (r.clone(), st.js_positive_cache.as_mut()) {
            cache.insert(key, ans);
        }
        r
    }
    fn emit_diagnostic(&mut self, json: String) {
        self.0.borrow_mut().emitted.push(json);
    }
}
