//! `sim bridge <request-fifo> <response-fifo> [hash-seed]`: the real compiler session (beff-wasm's
//! session layer and beff-core, native) behind the real JavaScript host. The JavaScript side
//! (js/e2eleg.mjs) puts a module of this shape where `pkg/beff_wasm.js` would be; every call of the
//! wasm package becomes one request line, every host function the compiler calls during that
//! request (read_file_content, resolve_import, emit_diagnostic) becomes a question line that the
//! JavaScript side answers with the working tree's own bundler.ts functions. One JSON document
//! per line, strictly alternating, so both sides can use blocking reads.
//!
//!   JS -> Rust   {"call":"update","file":f,"content":c} | {"call":"string","entry":e,"settings":s}
//!                | {"call":"diagnostics","entry":e,"settings":s} | {"call":"exit"} | {"a": answer}
//!   Rust -> JS   {"q":"read","file":f} | {"q":"resolve","from":f,"spec":s} | {"q":"emit","json":j}
//!                | {"r": result} | {"panic": message}
use beff_wasm::verif_host as api;
use std::io::{BufRead, BufReader, Write};

struct Chan {
    rx: BufReader<std::fs::File>,
    tx: std::fs::File,
}

impl Chan {
    fn send(&mut self, v: &serde_json::Value) {
        let mut s = serde_json::to_string(v).expect("serialize");
        s.push('\n');
        self.tx.write_all(s.as_bytes()).expect("bridge: write");
        self.tx.flush().expect("bridge: flush");
    }
    fn recv(&mut self) -> Option<serde_json::Value> {
        let mut line = String::new();
        match self.rx.read_line(&mut line) {
            Ok(0) | Err(_) => None,
            Ok(_) => serde_json::from_str(&line).ok(),
        }
    }
    fn ask(&mut self, q: serde_json::Value) -> serde_json::Value {
        self.send(&q);
        match self.recv() {
            Some(v) => v.get("a").cloned().unwrap_or(serde_json::Value::Null),
            None => std::process::exit(0),
        }
    }
}

struct BridgeHost(std::rc::Rc<std::cell::RefCell<Chan>>);

impl api::Host for BridgeHost {
    fn read_file_content(&mut self, file_name: &str) -> Option<String> {
        self.0.borrow_mut().ask(serde_json::json!({"q": "read", "file": file_name})).as_str().map(|s| s.to_string())
    }
    fn resolve_import(&mut self, current_file: &str, specifier: &str) -> Option<String> {
        self.0.borrow_mut().ask(serde_json::json!({"q": "resolve", "from": current_file, "spec": specifier})).as_str().map(|s| s.to_string())
    }
    fn emit_diagnostic(&mut self, json: String) {
        self.0.borrow_mut().ask(serde_json::json!({"q": "emit", "json": json}));
    }
}

pub fn bridge(req: &str, resp: &str, seed: u64) -> i32 {
    crate::session::install_panic_hook();
    crate::coord::silence_stderr();
    crate::coord::die_with_parent();
    let req = req.to_string();
    let resp = resp.to_string();
    // one simulated process: a fresh thread with hash keys of its own, as in ssim
    let h = std::thread::Builder::new().stack_size(256 << 20).spawn(move || {
        crate::host::seed_this_thread_hash_keys(seed);
        let rx = std::fs::File::open(&req).expect("bridge: open request fifo");
        let tx = std::fs::OpenOptions::new().write(true).open(&resp).expect("bridge: open response fifo");
        let chan = std::rc::Rc::new(std::cell::RefCell::new(Chan { rx: BufReader::new(rx), tx }));
        api::set_host(Some(Box::new(BridgeHost(chan.clone()))));
        loop {
            let Some(m) = chan.borrow_mut().recv() else { break };
            let s = |k: &str| m.get(k).and_then(|v| v.as_str()).unwrap_or("").to_string();
            let out = match s("call").as_str() {
                "update" => crate::session::guarded_pub(|| api::update_file_content(&s("file"), &s("content"))).map(|_| serde_json::Value::Null),
                "string" => crate::session::guarded_pub(|| api::bundle_to_string(&s("entry"), &s("settings"))).map(|c| c.map(serde_json::Value::String).unwrap_or(serde_json::Value::Null)),
                "diagnostics" => crate::session::guarded_pub(|| api::bundle_to_diagnostics(&s("entry"), &s("settings"))).map(serde_json::Value::String),
                "exit" => break,
                _ => Ok(serde_json::Value::Null),
            };
            match out {
                Ok(v) => chan.borrow_mut().send(&serde_json::json!({"r": v})),
                Err(p) => chan.borrow_mut().send(&serde_json::json!({"panic": p})),
            }
        }
        api::set_host(None);
    });
    match h {
        Ok(j) => {
            let _ = j.join();
            0
        }
        Err(_) => 2,
    }
}
