//! Delta debugging over an explicit run: keep a step only if the same violation class persists.
use crate::edits;
use crate::exec::{execute, ExecOpts};
use crate::model::*;
use std::time::{Duration, Instant};

pub fn reproduces(run: &Run, opts: &ExecOpts, property: &str, class: &str) -> Option<Violation> {
    if class.starts_with("module-") {
        // Node leg of I-C04: the emitted modules of this run are imported by Node
        let mut o = opts.clone();
        o.collect_codes = true;
        o.code_dedup = false;
        let out = execute(run, &o);
        let items: Vec<&CodeItem> = out.codes.iter().collect();
        return match crate::coord::node_leg(&items, "min") {
            Ok(bad) => bad.into_iter().find(|(_, c, _)| c == class).map(|(h, c, d)| Violation { property: "C04".into(), class: c, detail: serde_json::json!({"module_hash": format!("{:016x}", h), "node": d}), op_index: run.ops.len().saturating_sub(1) }),
            Err(_) => None,
        };
    }
    let out = execute(run, opts);
    out.violations.into_iter().find(|v| v.property == property && v.class == class)
}

pub fn minimize(run: &Run, opts: &ExecOpts, property: &str, class: &str, budget: Duration) -> Run {
    let start = Instant::now();
    let mut best = run.clone();
    let ok = |r: &Run| reproduces(r, opts, property, class).is_some();
    let within = || start.elapsed() < budget;

    // 1. cut everything after the violating operation
    if let Some(v) = reproduces(&best, opts, property, class) {
        if best.variants.is_empty() && v.op_index + 1 < best.ops.len() {
            let mut c = best.clone();
            c.ops.truncate(v.op_index + 1);
            if ok(&c) {
                best = c;
            }
        }
    } else {
        return best; // does not reproduce in-process: leave as is
    }

    // 2. C10: reduce to the differing pair of variants
    if !best.variants.is_empty() && best.variants.len() > 2 {
        'pair: for a in 0..best.variants.len() {
            for b in a + 1..best.variants.len() {
                if !within() {
                    break 'pair;
                }
                let mut c = best.clone();
                c.variants = vec![best.variants[a].clone(), best.variants[b].clone()];
                if ok(&c) {
                    best = c;
                    break 'pair;
                }
            }
        }
        // a repeat-in-session difference needs one variant only
        for a in 0..best.variants.len() {
            if !within() {
                break;
            }
            let mut c = best.clone();
            c.variants = vec![best.variants[a].clone()];
            if ok(&c) {
                best = c;
                break;
            }
        }
        for i in 0..best.variants.len() {
            if !best.variants[i].preregister.is_empty() && within() {
                let mut c = best.clone();
                c.variants[i].preregister.clear();
                if ok(&c) {
                    best = c;
                }
            }
        }
    }

    // 3. ddmin over operations
    let mut chunk = (best.ops.len() / 2).max(1);
    while chunk >= 1 && within() && !best.ops.is_empty() {
        let mut i = 0;
        let mut removed_any = false;
        while i < best.ops.len() && within() {
            let end = (i + chunk).min(best.ops.len());
            // never drop the final checkpoint of a C14 run by itself: the class needs an oracle call
            let mut c = best.clone();
            c.ops.drain(i..end);
            if !c.ops.is_empty() && ok(&c) {
                best = c;
                removed_any = true;
            } else {
                i = end;
            }
        }
        if chunk == 1 && !removed_any {
            break;
        }
        if !removed_any {
            chunk /= 2;
        }
    }

    // 4. drop project files
    let files: Vec<String> = best.project.files.keys().cloned().collect();
    for f in files {
        if !within() {
            break;
        }
        if f == best.project.entry {
            continue;
        }
        let mut c = best.clone();
        c.project.files.remove(&f);
        if ok(&c) {
            best = c;
        }
    }

    // 5. drop top-level declarations of project files and of written contents
    let files: Vec<String> = best.project.files.keys().cloned().collect();
    for f in files {
        loop {
            if !within() {
                break;
            }
            let content = best.project.files[&f].clone();
            let Some(items) = edits::items(&f, &content) else { break };
            let mut shrunk = false;
            for it in items.iter().rev() {
                if !within() {
                    break;
                }
                let mut c = best.clone();
                let nc = format!("{}{}", &content[..it.lo], &content[it.hi..]);
                c.project.files.insert(f.clone(), nc);
                if ok(&c) {
                    best = c;
                    shrunk = true;
                    break;
                }
            }
            if !shrunk {
                break;
            }
        }
    }
    for i in 0..best.ops.len() {
        loop {
            if !within() {
                break;
            }
            let (f, content) = match &best.ops[i] {
                Op::Write { f, content } => (f.clone(), content.clone()),
                _ => break,
            };
            let Some(items) = edits::items(&f, &content) else { break };
            let mut shrunk = false;
            for it in items.iter().rev() {
                if !within() {
                    break;
                }
                let mut c = best.clone();
                let nc = format!("{}{}", &content[..it.lo], &content[it.hi..]);
                c.ops[i] = Op::Write { f: f.clone(), content: nc };
                if ok(&c) {
                    best = c;
                    shrunk = true;
                    break;
                }
            }
            if !shrunk {
                break;
            }
        }
    }
    best
}
