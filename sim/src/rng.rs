//! One integer decides everything: splitmix64 for derivation, xoshiro256** as the stream.

pub fn splitmix64(x: &mut u64) -> u64 {
    *x = x.wrapping_add(0x9E3779B97F4A7C15);
    let mut z = *x;
    z = (z ^ (z >> 30)).wrapping_mul(0xBF58476D1CE4E5B9);
    z = (z ^ (z >> 27)).wrapping_mul(0x94D049BB133111EB);
    z ^ (z >> 31)
}

/// Derive the seed of run `index` of (`root`, property/tier label).
pub fn derive(root: u64, label: &str, index: u64) -> u64 {
    let mut s = root ^ 0x5851F42D4C957F2D;
    let mut acc = splitmix64(&mut s);
    for b in label.bytes() {
        s ^= b as u64;
        acc ^= splitmix64(&mut s);
    }
    s ^= index.wrapping_mul(0xD1342543DE82EF95);
    acc ^ splitmix64(&mut s)
}

pub fn fnv64(bytes: &[u8]) -> u64 {
    let mut h: u64 = 0xcbf29ce484222325;
    for b in bytes {
        h ^= *b as u64;
        h = h.wrapping_mul(0x100000001b3);
    }
    h
}

pub fn fnv64_more(mut h: u64, bytes: &[u8]) -> u64 {
    for b in bytes {
        h ^= *b as u64;
        h = h.wrapping_mul(0x100000001b3);
    }
    h
}

#[derive(Clone)]
pub struct Rng {
    s: [u64; 4],
}

impl Rng {
    pub fn new(seed: u64) -> Rng {
        let mut x = seed;
        let s = [
            splitmix64(&mut x),
            splitmix64(&mut x),
            splitmix64(&mut x),
            splitmix64(&mut x),
        ];
        Rng { s }
    }
    pub fn next(&mut self) -> u64 {
        let r = self.s[1].wrapping_mul(5).rotate_left(7).wrapping_mul(9);
        let t = self.s[1] << 17;
        self.s[2] ^= self.s[0];
        self.s[3] ^= self.s[1];
        self.s[1] ^= self.s[2];
        self.s[0] ^= self.s[3];
        self.s[2] ^= t;
        self.s[3] = self.s[3].rotate_left(45);
        r
    }
    /// uniform in 0..n (n > 0)
    pub fn below(&mut self, n: usize) -> usize {
        debug_assert!(n > 0);
        (self.next() % (n as u64)) as usize
    }
    pub fn range(&mut self, lo: usize, hi_incl: usize) -> usize {
        lo + self.below(hi_incl - lo + 1)
    }
    /// true with probability num/den
    pub fn chance(&mut self, num: u32, den: u32) -> bool {
        (self.next() % den as u64) < num as u64
    }
    pub fn pick<'a, T>(&mut self, v: &'a [T]) -> &'a T {
        &v[self.below(v.len())]
    }
    pub fn shuffle<T>(&mut self, v: &mut [T]) {
        for i in (1..v.len()).rev() {
            let j = self.below(i + 1);
            v.swap(i, j);
        }
    }
    pub fn fork(&mut self) -> Rng {
        Rng::new(self.next())
    }
}
