#!/usr/bin/env python3
"""handmut.py <mutants.json> <out.json> [--only id,id]  (env VERIF_HOME = shadow copy of /verif whose ./check is the leg
to run, VERIF_REPO = scratch worktree): hand-written semantic mutants {id,file,old,new,what}; each is applied to the
scratch worktree, the shadow's ./check <prop> is run, the worktree is restored. killed = exit 1, survived = exit 0,
invalid = anything else. Never touches /repo."""
import json, os, subprocess, sys, time
muts = json.load(open(sys.argv[1])); outp = sys.argv[2]
only = None
if "--only" in sys.argv: only = set(sys.argv[sys.argv.index("--only") + 1].split(","))
HOME = os.environ["VERIF_HOME"]; REPO = os.environ["VERIF_REPO"]; prop = os.environ.get("MUT_PROP", "C14")
assert not REPO.rstrip("/") == "/repo"
res = []
for m in muts:
    if only and m["id"] not in only: continue
    full = os.path.join(REPO, m["file"]); orig = open(full).read()
    if orig.count(m["old"]) != 1:
        res.append({**m, "verdict": "not-applicable", "count": orig.count(m["old"])}); print(m["id"], "old text found", orig.count(m["old"]), "times", flush=True); continue
    open(full, "w").write(orig.replace(m["old"], m["new"]))
    t = time.time()
    try:
        r = subprocess.run(["./check", prop, "--tier", "quick"], cwd=HOME, capture_output=True, text=True, timeout=3600)
        verdict = {0: "survived", 1: "killed"}.get(r.returncode, "invalid")
        cls = sorted({l.split("class=")[1] for l in r.stdout.splitlines() if l.startswith("VIOLATION") and "class=" in l})[:4]
        tail = "" if verdict != "invalid" else (r.stdout + r.stderr)[-400:]
    finally:
        open(full, "w").write(orig)
    res.append({k: m[k] for k in ("id", "file", "what")} | {"verdict": verdict, "classes": cls, "wall_s": round(time.time() - t), "tail": tail})
    print(m["id"], verdict, cls, round(time.time() - t), "s |", m["what"], flush=True)
    json.dump(res, open(outp, "w"), indent=1)
