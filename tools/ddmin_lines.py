#!/usr/bin/env python3
"""ddmin_lines.py <project.json> <crash|hang|regex>  : line-level reduction of a project that makes
`sim compile` crash (signal), hang (>8 s) or print something matching the regex."""
import json,re,subprocess,sys
p=json.load(open(sys.argv[1])); want=sys.argv[2]
def bad(files):
    q=dict(p); q['files']=files
    json.dump(q,open('/tmp/ddmin.json','w'))
    try:
        r=subprocess.run(['/verif/target/release/sim','compile','/tmp/ddmin.json','/tmp/ddmin.mjs'],capture_output=True,text=True,timeout=8)
    except subprocess.TimeoutExpired:
        return want=='hang'
    if want=='crash': return r.returncode<0
    if want=='hang': return False
    return re.search(want,r.stdout) is not None
files=dict(p['files'])
assert bad(files), "does not reproduce"
changed=True
while changed:
    changed=False
    for f in list(files):
        if f!=p['entry']:
            g={k:v for k,v in files.items() if k!=f}
            if bad(g): files=g; changed=True; continue
        lines=files[f].split('\n'); i=0
        while i<len(lines):
            c=lines[:i]+lines[i+1:]; g=dict(files); g[f]='\n'.join(c)
            if bad(g): files=g; lines=c; changed=True
            else: i+=1
for f,v in files.items(): print('---',f); print(v)
p['files']=files; json.dump(p,open('/tmp/ddmin_out.json','w'))
