#!/usr/bin/env python3
"""Extract the workload corpus from the pinned tree (run once; output is committed).

The corpus is *data*, not oracle: nothing in it says what the right output is, except the
coarse tag `origin_kind` (ok / fail / e2e / fixture / hand) which is used for statistics only.
"""
import json, os, re, sys, hashlib

REPO = sys.argv[1] if len(sys.argv) > 1 else "/repo"
OUT = sys.argv[2] if len(sys.argv) > 2 else "/verif/corpus"

TEST_SETTINGS = {
    "string_formats": ["ReadAuthorizedUser", "User", "WriteAuthorizedUser", "password"],
    "number_formats": ["NonInfiniteNumber", "NonNegativeNumber", "Rate", "age"],
}

RAW = re.compile(r'r(#*)"(.*?)"\1', re.S)


def split_tests(src):
    # yields (fn_name, body)
    idx = [(m.start(), m.group(1)) for m in re.finditer(r"#\[test\]\s*fn\s+(\w+)\s*\(\)", src)]
    for i, (pos, name) in enumerate(idx):
        end = idx[i + 1][0] if i + 1 < len(idx) else len(src)
        yield name, src[pos:end]


def programs_from_test(body):
    """Return list of (kind, files) where files is list of (name, content)."""
    out = []
    # cut the snapshot part: everything after ',@r' or ', @r'
    # multifile calls
    for m in re.finditer(r"\b(print_types|print_cgen|failure)(_multifile)?\s*\(", body):
        kind = m.group(1)
        multi = m.group(2) is not None
        rest = body[m.end():]
        if multi:
            # up to the matching "])"
            stop = rest.find("])")
            seg = rest[:stop] if stop >= 0 else rest
            files = []
            for fm in re.finditer(r'\(\s*"([^"]+)"\s*,\s*r(#*)"(.*?)"\2\s*,?\s*\)', seg, re.S):
                files.append((fm.group(1), fm.group(3)))
            if files:
                out.append((kind, files))
        else:
            arg = rest[: rest.find(")")].strip()
            if arg.startswith("r"):
                rm = RAW.match(rest.strip())
                if rm:
                    out.append((kind, [("entry.ts", rm.group(2))]))
            else:
                # variable: find `let <arg> = r#"..."#`
                vm = re.search(r"let\s+" + re.escape(arg) + r'\s*=\s*r(#*)"(.*?)"\1', body, re.S)
                if vm:
                    out.append((kind, [("entry.ts", vm.group(2))]))
    return out


def main():
    os.makedirs(OUT, exist_ok=True)
    projects = []
    tdir = os.path.join(REPO, "packages/beff-core/tests")
    for fn in sorted(os.listdir(tdir)):
        if not fn.endswith(".rs"):
            continue
        src = open(os.path.join(tdir, fn)).read()
        for name, body in split_tests(src):
            seen = set()
            for k, (kind, files) in enumerate(programs_from_test(body)):
                key = json.dumps(files)
                if key in seen:
                    continue
                seen.add(key)
                fm = {"/p/" + n: c for n, c in files}
                if "/p/entry.ts" not in fm:
                    continue
                projects.append({
                    "id": f"t_{fn[:-3]}_{name}" + (f"_{k}" if k else ""),
                    "origin": f"packages/beff-core/tests/{fn}::{name}",
                    "origin_kind": "fail" if kind == "failure" else "ok",
                    "entry": "/p/entry.ts",
                    "settings": TEST_SETTINGS,
                    "module": "esm",
                    "files": fm,
                })

    def settings_of(bff):
        return {
            "string_formats": sorted(x["name"] for x in bff.get("stringFormats", []) or []),
            "number_formats": sorted(x["name"] for x in bff.get("numberFormats", []) or []),
        }

    parser_dts = open(os.path.join(REPO, "packages/beff-wasm/bundled-code/parser.d.ts")).read()

    def load_dir(root, pid, kind):
        cfgp = None
        for c in ("beff.json", "bff.json"):
            if os.path.exists(os.path.join(root, c)):
                cfgp = os.path.join(root, c)
        if not cfgp:
            return
        try:
            bff = json.load(open(cfgp))
        except Exception:
            return
        if not isinstance(bff, dict) or not bff.get("parser") or not bff.get("outputDir"):
            return
        files = {}
        outdir = os.path.normpath(os.path.join(root, bff["outputDir"]))
        for dp, dn, fns in os.walk(root):
            if "node_modules" in dp or os.path.normpath(dp).startswith(outdir):
                continue
            for f in fns:
                if f.endswith((".ts", ".tsx")):
                    p = os.path.join(dp, f)
                    rel = os.path.relpath(p, root)
                    files["/p/" + rel] = open(p).read()
        entry = "/p/" + os.path.normpath(bff["parser"])
        if entry not in files:
            return
        relout = os.path.relpath(outdir, root)
        files["/p/" + relout + "/parser.d.ts"] = parser_dts
        # keep only what is reachable from the entry point through relative imports
        def resolve(cur, spec):
            base = os.path.normpath(os.path.join(os.path.dirname(cur), spec))
            for c in (base + ".ts", base + ".tsx", base + ".d.ts", base + "/index.ts", base):
                if c in files:
                    return c
            return None
        reach, todo = set(), [entry]
        while todo:
            f = todo.pop()
            if f in reach:
                continue
            reach.add(f)
            for m in re.finditer(r'''(?:from|import)\s*\(?\s*["\']([^"\']+)["\']''', files[f]):
                if m.group(1).startswith("."):
                    t = resolve(f, m.group(1))
                    if t:
                        todo.append(t)
        files = {k: v for k, v in files.items() if k in reach}
        projects.append({
            "id": pid, "origin": os.path.relpath(root, REPO), "origin_kind": kind,
            "entry": entry, "settings": settings_of(bff), "module": bff.get("module") or "esm",
            "files": files,
        })

    e2e = os.path.join(REPO, "e2e-tests")
    for d in sorted(os.listdir(e2e)):
        load_dir(os.path.join(e2e, d), "e2e_" + d.replace("-", "_"), "e2e")
    for sub in ("codegen-snaps", "errors"):
        fx = os.path.join(REPO, "packages/beff-wasm/fixtures", sub)
        for d in sorted(os.listdir(fx)):
            load_dir(os.path.join(fx, d), f"fx_{sub.replace('-', '_')}_{d.replace('-', '_')}", "fixture")

    # hand-written multi-file layouts (S2: parse-time resolution, re-export chains, cycles, ...)
    from hand_corpus import HAND
    for h in HAND:
        h = dict(h)
        h.setdefault("origin", "verif/tools/hand_corpus.py")
        h.setdefault("origin_kind", "hand")
        h.setdefault("entry", "/p/entry.ts")
        h.setdefault("settings", TEST_SETTINGS)
        h.setdefault("module", "esm")
        projects.append(h)

    ids = set()
    for p in projects:
        assert p["id"] not in ids, p["id"]
        ids.add(p["id"])
    projects.sort(key=lambda p: p["id"])
    with open(os.path.join(OUT, "corpus.json"), "w") as f:
        json.dump(projects, f, indent=0, sort_keys=True)
    kinds = {}
    for p in projects:
        kinds[p["origin_kind"]] = kinds.get(p["origin_kind"], 0) + 1
    print(len(projects), kinds, "multi-file:", sum(1 for p in projects if len(p["files"]) > 1))


if __name__ == "__main__":
    sys.path.insert(0, os.path.dirname(os.path.abspath(__file__)))
    main()
