#!/usr/bin/env python3
import json,sys
for f in sys.argv[1:]:
    r=json.load(open(f))
    print('=====',f, r['violation_class'])
    print('project',r['project']['id'], 'entry', r['project']['entry'], 'settings', r['project']['settings'])
    for k,v in r['project']['files'].items(): print('  ---',k); print('   '+v.replace('\n','\n   ')[:1500])
    for op in r['ops']:
        o=dict(op)
        if 'content' in o: o['content']=o['content'][:400]
        print('  op',json.dumps(o))
    for v in r['variants']: print('  variant', json.dumps(v))
    print(' observed', json.dumps(r['observed'])[:2500])
