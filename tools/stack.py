#!/usr/bin/env python3
"""stack.py <project.json> : run `sim compile` on it; if it stalls (3 s) attach gdb and print the
beff frames; if it dies with a signal, re-run under gdb and print the innermost beff frames."""
import subprocess,sys,time,re
cmd=["/verif/target/release/sim","compile",sys.argv[1],"/tmp/stack_out.mjs"]
p=subprocess.Popen(cmd,stdout=subprocess.DEVNULL,stderr=subprocess.DEVNULL)
t0=time.time()
while p.poll() is None and time.time()-t0<3: time.sleep(0.05)
def frames(txt,n=60):
    out=[]
    for l in txt.splitlines():
        m=re.match(r'#(\d+)\s+(?:0x[0-9a-f]+ in )?(.*?) \(.*?(?: at (\S+))?$',l)
        if m and ('beff' in m.group(2)): out.append((m.group(2)[:110], m.group(3)))
    return out[:n]
if p.poll() is None:
    r=subprocess.run(["gdb","-p",str(p.pid),"-batch","-ex","thread apply all bt 80"],capture_output=True,text=True)
    p.kill()
    print("STALLED"); 
    for f in frames(r.stdout): print("  ",f)
elif p.returncode<0:
    r=subprocess.run(["gdb","-batch","-ex","run","-ex","bt 120","--args"]+cmd,capture_output=True,text=True,timeout=120)
    print("DIED signal",-p.returncode)
    seen=[]
    for f in frames(r.stdout,200):
        if f not in seen: seen.append(f)
    for f in seen[:25]: print("  ",f)
else:
    print("exit",p.returncode)
