#!/usr/bin/env python3
"""design_tables.py : rewrites the two generated tables of DESIGN.md (9.4 repaired defects from
known_findings.json, 9.8 seeded changes from seeded/*/meta.json) in place."""
import json, glob, re, subprocess
D = "/verif/DESIGN.md"
s = open(D).read()

def replace_table(s, header, rows):
    i = s.index(header)
    j = s.index("\n\n", i)
    return s[:i] + header + "\n" + rows + s[j:]

k = json.load(open("/verif/known_findings.json"))
rows = ["|----|----------|-------------|--------|-----------------|"]
for e in k:
    if e["status"] != "fixed":
        continue
    rows.append("| %s | %s | %s | %s | %s |" % (e["id"], e["property"], e["what_fails"].replace("|", "\\|"), e.get("commit", ""), e.get("record", "")))
s = replace_table(s, "| id | property | what failed | commit | recorded replay |", "\n".join(rows))

out = subprocess.run(["python3", "/verif/tools/seed_table.py"], capture_output=True, text=True).stdout
tbl = out.split("\n\n")[0].split("\n")
s = replace_table(s, "| id | property | caught by | when | what the change is |", "\n".join(tbl[1:]))
open(D, "w").write(s)
print("fixed:", len(rows) - 1, "seeded rows:", len(tbl) - 2)
print(out.split("\n\n")[1])
