"""Hand-written multi-file layouts: workload aimed at cross-file state (parse-time import
resolution, re-export chains, default/namespace imports, same-named types in two files,
.d.ts/.tsx files, directories).  Workload only - no expected outputs."""

E = 'import parse from "./gen/parser";\n'

HAND = [
    {
        "id": "h_chain3",
        "files": {
            "/p/entry.ts": E + 'import { A } from "./a";\nexport type Top = { a: A; n: number };\nparse.buildParsers<{ Top: Top; A: A }>();\n',
            "/p/a.ts": 'import { B } from "./b";\nexport type A = { b: B; tag: "a" };\n',
            "/p/b.ts": 'import { C } from "./c";\nexport type B = { c: C[]; tag: "b" };\n',
            "/p/c.ts": 'export type C = { id: string; v?: number };\n',
        },
    },
    {
        "id": "h_reexport_chain",
        "files": {
            "/p/entry.ts": E + 'import { Leaf, Mid } from "./barrel";\nparse.buildParsers<{ Leaf: Leaf; Mid: Mid }>();\n',
            "/p/barrel.ts": 'export * from "./mid";\nexport { Leaf } from "./leaf";\n',
            "/p/mid.ts": 'import { Leaf } from "./leaf";\nexport type Mid = { leaf: Leaf; k: "mid" };\n',
            "/p/leaf.ts": 'export type Leaf = { x: number; y: string | null };\n',
        },
    },
    {
        "id": "h_star_two_levels",
        "files": {
            "/p/entry.ts": E + 'import { P, Q, R } from "./all";\nparse.buildParsers<{ P: P; Q: Q; R: R }>();\n',
            "/p/all.ts": 'export * from "./pq";\nexport * from "./r";\n',
            "/p/pq.ts": 'export type P = { p: string };\nexport type Q = { q: P[] };\n',
            "/p/r.ts": 'import { P } from "./pq";\nexport type R = { r: P | null };\n',
        },
    },
    {
        "id": "h_default_and_ns",
        "files": {
            "/p/entry.ts": E + 'import Def from "./def";\nimport * as NS from "./ns";\ntype UsesNs = { a: NS.One; b: NS.Two };\nparse.buildParsers<{ Def: Def; UsesNs: UsesNs }>();\n',
            "/p/def.ts": 'type D = { d: boolean; e: "x" | "y" };\nexport default D;\n',
            "/p/ns.ts": 'export type One = { one: 1 };\nexport type Two = { two: 2; one: One };\n',
        },
    },
    {
        "id": "h_same_name_two_files",
        "files": {
            "/p/entry.ts": E + 'import { User as U1 } from "./m1";\nimport { User as U2 } from "./m2";\ntype Both = { a: U1; b: U2 };\nparse.buildParsers<{ Both: Both; U1: U1; U2: U2 }>();\n',
            "/p/m1.ts": 'export type User = { id: string };\n',
            "/p/m2.ts": 'export type User = { id: number; name: string };\n',
        },
    },
    {
        "id": "h_typeof_ns_consts",
        "files": {
            "/p/entry.ts": E + 'import * as K from "./consts";\ntype T = typeof K;\ntype One = typeof K.A;\nparse.buildParsers<{ T: T; One: One }>();\n',
            "/p/consts.ts": 'export const A = "a" as const;\nexport const B = 2 as const;\nexport const C = { x: 1, y: "z" } as const;\nexport const D = true as const;\n',
        },
    },
    {
        "id": "h_typeof_ns_bad_consts",
        "files": {
            "/p/entry.ts": E + 'import * as K from "./consts";\ntype T = typeof K;\nparse.buildParsers<{ T: T }>();\n',
            "/p/consts.ts": 'export const r1 = /a/;\nexport const r2 = /b/;\nexport const f3 = () => 1;\nexport const c4 = class {};\nexport const ok = 1 as const;\n',
        },
    },
    {
        "id": "h_dirs",
        "files": {
            "/p/entry.ts": E + 'import { Model } from "./models";\nimport { Id } from "./models/id";\nparse.buildParsers<{ Model: Model; Id: Id }>();\n',
            "/p/models/index.ts": 'import { Id } from "./id";\nimport { Shared } from "../shared/types";\nexport type Model = { id: Id; s: Shared };\n',
            "/p/models/id.ts": 'export type Id = string;\n',
            "/p/shared/types.ts": 'export type Shared = { at: Date; tags: string[] };\n',
        },
    },
    {
        "id": "h_dts_tsx",
        "files": {
            "/p/entry.ts": E + 'import { FromDts } from "./decl";\nimport { FromTsx } from "./comp";\nparse.buildParsers<{ FromDts: FromDts; FromTsx: FromTsx }>();\n',
            "/p/decl.d.ts": 'export declare type FromDts = { a: string; b?: number };\nexport declare const VALUE: "v";\n',
            "/p/comp.tsx": 'export type FromTsx = { props: { title: string } };\nexport const El = () => <div>hi</div>;\n',
        },
    },
    {
        "id": "h_import_type_expr",
        "files": {
            "/p/entry.ts": E + 'type A = import("./other").Other;\ntype B = typeof import("./other").VAL;\nparse.buildParsers<{ A: A; B: B }>();\n',
            "/p/other.ts": 'export type Other = { o: "other"; n: number[] };\nexport const VAL = { k: "v" } as const;\n',
        },
    },
    {
        "id": "h_recursive_across_files",
        "files": {
            "/p/entry.ts": E + 'import { Tree } from "./tree";\nimport { Forest } from "./forest";\nparse.buildParsers<{ Tree: Tree; Forest: Forest }>();\n',
            "/p/tree.ts": 'import { Forest } from "./forest";\nexport type Tree = { v: number; kids: Forest };\n',
            "/p/forest.ts": 'import { Tree } from "./tree";\nexport type Forest = Tree[];\n',
        },
    },
    {
        "id": "h_generics_across_files",
        "files": {
            "/p/entry.ts": E + 'import { Box, Pair } from "./g";\nimport { Item } from "./item";\ntype BI = Box<Item>;\ntype PI = Pair<Item, Box<string>>;\nparse.buildParsers<{ BI: BI; PI: PI }>();\n',
            "/p/g.ts": 'export type Box<T> = { value: T };\nexport type Pair<A, B> = { a: A; b: B };\n',
            "/p/item.ts": 'export type Item = { sku: string; qty: number };\n',
        },
    },
    {
        "id": "h_enum_and_interface_extends",
        "files": {
            "/p/entry.ts": E + 'import { Color, Shape } from "./shapes";\nimport { Circle } from "./circle";\nparse.buildParsers<{ Color: Color; Shape: Shape; Circle: Circle }>();\n',
            "/p/shapes.ts": 'export enum Color { Red = "red", Blue = "blue" }\nexport interface Shape { color: Color; name: string }\n',
            "/p/circle.ts": 'import { Shape, Color } from "./shapes";\nexport interface Circle extends Shape { r: number; fill?: Color.Red }\n',
        },
    },
    {
        "id": "h_discriminated_shared",
        "files": {
            "/p/entry.ts": E + 'import { Cat, Dog } from "./animals";\ntype Pet = Cat | Dog;\ntype Owner = { pet: Pet; favourite: Cat; others: Pet[] };\nparse.buildParsers<{ Pet: Pet; Owner: Owner; Cat: Cat; Dog: Dog }>();\n',
            "/p/animals.ts": 'export type Cat = { kind: "cat"; lives: number };\nexport type Dog = { kind: "dog"; good: boolean };\n',
        },
    },
    {
        "id": "h_star_cycle_benign",
        "files": {
            "/p/entry.ts": E + 'import { InA, InB } from "./a";\nparse.buildParsers<{ InA: InA; InB: InB }>();\n',
            "/p/a.ts": 'export * from "./b";\nexport type InA = { a: 1 };\n',
            "/p/b.ts": 'export * from "./a";\nexport type InB = { b: 2 };\n',
        },
    },
    {
        "id": "h_missing_import",
        "files": {
            "/p/entry.ts": E + 'import { Gone } from "./gone";\nimport { Here } from "./here";\nparse.buildParsers<{ Gone: Gone; Here: Here }>();\n',
            "/p/here.ts": 'export type Here = { h: string };\n',
        },
    },
    {
        "id": "h_value_and_type_exports",
        "files": {
            "/p/entry.ts": E + 'import { Settings, DEFAULTS } from "./settings";\ntype D = typeof DEFAULTS;\nparse.buildParsers<{ Settings: Settings; D: D }>();\n',
            "/p/settings.ts": 'export type Settings = { depth: number; mode: "a" | "b" };\nexport const DEFAULTS = { depth: 3, mode: "a" } as const;\n',
        },
    },
    {
        "id": "h_utility_types_across",
        "files": {
            "/p/entry.ts": E + 'import { Full } from "./full";\ntype P = Partial<Full>;\ntype K = Pick<Full, "a" | "b">;\ntype O = Omit<Full, "c">;\ntype R = Record<"x" | "y", Full>;\nparse.buildParsers<{ P: P; K: K; O: O; R: R }>();\n',
            "/p/full.ts": 'export type Full = { a: string; b: number; c: boolean; d?: null };\n',
        },
    },
    {
        "id": "h_nested_node_modules",
        "files": {
            "/p/entry.ts": E + 'import { Account } from "./a/account";\nimport { Invoice } from "./b/invoice";\nparse.buildParsers<{ Account: Account; Invoice: Invoice }>();\n',
            "/p/a/account.ts": 'import { Id } from "ids";\nexport type Account = { id: Id; owner: string };\n',
            "/p/a/node_modules/ids/index.ts": 'export type Id = string;\n',
            "/p/b/invoice.ts": 'import { Id } from "ids";\nexport type Invoice = { id: Id; total: number };\n',
            "/p/b/node_modules/ids/index.ts": 'export type Id = number;\n',
        },
    },
    {
        "id": "h_same_text_two_dirs",
        "files": {
            "/p/entry.ts": E + 'import { Item as CartItem } from "./cart";\nimport { Item as WishItem } from "./wishlist";\nparse.buildParsers<{ CartItem: CartItem; WishItem: WishItem }>();\n',
            "/p/cart/index.ts": 'export * from "./types";\n',
            "/p/cart/types.ts": 'export type Item = { sku: string; quantity: number };\n',
            "/p/wishlist/index.ts": 'export * from "./types";\n',
            "/p/wishlist/types.ts": 'export type Item = { sku: string; note: string };\n',
        },
    },
    {
        "id": "h_dollar_names",
        "files": {
            "/p/entry.ts": E + 'type Order$Item = { sku: string };\ntype Order_Item = { sku: string; qty: number };\ntype Cart = { a: Order$Item; b: Order_Item[] };\ntype Money$$ = { amount: number; currency: string };\ntype $Wrapper = { m: Money$$; list: Money$$[] };\ntype Tree$$1 = { v: number; kids: Tree$$1[] };\nparse.buildParsers<{ Money: Money$$; Wrapper: $Wrapper; Tree: Tree$$1; Cart: Cart; A: Order$Item; B: Order_Item }>();\n',
        },
    },
    {
        "id": "h_two_discriminators",
        "files": {
            "/p/entry.ts": E + 'type Shape = { kind: "circle"; type: "round"; r: number } | { kind: "square"; type: "angular"; side: number };\ntype Holder = { shapes: Shape[]; first: Shape };\nparse.buildParsers<{ Shape: Shape; Holder: Holder }>();\n',
        },
    },
    {
        "id": "h_recursive_type_query",
        "files": {
            "/p/entry.ts": E + 'type Tree = { value: string; left: Tree | null; right: Tree | null };\nexport type Child = Exclude<Tree["left"], null>;\nexport type Keys = keyof Tree;\nparse.buildParsers<{ Child: Child; Keys: Keys; Tree: Tree }>();\n',
        },
    },
    {
        "id": "h_typeof_ns_barrel_bad",
        "files": {
            "/p/entry.ts": E + 'import * as K from "./barrel";\ntype T = typeof K;\nparse.buildParsers<{ T: T }>();\n',
            "/p/barrel.ts": 'export { r1, r2, f3, c4, ok } from "./consts";\nexport { other as renamed, q5 } from "./more";\n',
            "/p/consts.ts": 'export const r1 = /a/;\nexport const r2 = { [Symbol.iterator]: 1 };\nexport const f3 = () => 1;\nexport const c4 = class {};\nexport const ok = 1 as const;\n',
            "/p/more.ts": 'export const other = new Date();\nexport const q5 = { 1.5: "x", ["k" + 1]: 2 };\n',
        },
    },
    {
        "id": "h_typeof_ns_barrel_ok",
        "files": {
            "/p/entry.ts": E + 'import * as K from "./barrel";\ntype T = typeof K;\ntype One = typeof K.a;\nparse.buildParsers<{ T: T; One: One }>();\n',
            "/p/barrel.ts": 'export { a, b, c } from "./consts";\nexport * from "./more";\nexport * as nested from "./more";\n',
            "/p/consts.ts": 'export const a = "a" as const;\nexport const b = 2 as const;\nexport const c = { x: 1 } as const;\n',
            "/p/more.ts": 'export const d = true as const;\nexport const e = ["p", "q"] as const;\n',
        },
    },
    {
        "id": "h_sanitised_path_clash",
        "files": {
            "/p/entry.ts": E + 'import { User as U1 } from "./a-b/types";\nimport { User as U2 } from "./a_b/types";\nparse.buildParsers<{ U1: U1; U2: U2 }>();\n',
            "/p/a-b/types.ts": 'export type User = { id: string };\n',
            "/p/a_b/types.ts": 'export type User = { id: number; name: string };\n',
        },
    },
    {
        "id": "h_case_twins",
        "files": {
            "/p/entry.ts": E + 'import { User } from "./types";\nimport { Account } from "./Types";\nparse.buildParsers<{ User: User; Account: Account }>();\n',
            "/p/types.ts": 'export type User = { id: string };\n',
            "/p/Types.ts": 'export type Account = { owner: string; balance: number };\n',
        },
    },
]
