#!/usr/bin/env python3
"""diag_census.py <n synthetic seeds> : which DiagnosticInfoMessage variants does the workload reach?
(triage aid: compiles the corpus and n synthetic projects once each, maps the messages back to the
variants of packages/beff-core/src/diag.rs by their static text)"""
import json, re, subprocess, sys, os, collections
from concurrent.futures import ThreadPoolExecutor
n = int(sys.argv[1])
SIM = "/verif/target/release/sim"
src = open("/repo/packages/beff-core/src/diag.rs").read()
variants = re.findall(r"^    ([A-Z]\w+)", src[src.index("pub enum DiagnosticInfoMessage"):src.index("}", src.index("pub enum DiagnosticInfoMessage") + 2000 if False else src.index("pub enum DiagnosticInfoMessage"))], re.M)
body = src[src.index("pub enum DiagnosticInfoMessage"):]
variants = re.findall(r"^    ([A-Z]\w+)", body[:body.index("\n}\n")], re.M)
# static text per variant: first string literal after `DiagnosticInfoMessage::V` in the to_string match
texts = {}
for v in variants:
    m = re.search(r"DiagnosticInfoMessage::" + v + r"\b[^=]*=>\s*\{?\s*(?:format!\()?\s*\"((?:[^\"\\]|\\.)*)\"", src, re.S)
    if m:
        t = m.group(1)
        t = re.split(r"\{", t)[0]
        texts[v] = t.replace("\\\"", "\"").replace("\\'", "'")
os.makedirs("/tmp/census", exist_ok=True)
corpus = json.load(open("/verif/corpus/corpus.json"))
jobs = [("corpus", p["id"]) for p in corpus] + [("syn", k) for k in range(n)]
def one(job):
    kind, k = job
    if kind == "corpus":
        arg = k
    else:
        f = f"/tmp/census/{k}.json"
        open(f, "w").write(subprocess.run([SIM, "synthetic", str(1000003 * k + 17)], capture_output=True, text=True).stdout)
        arg = f
    try:
        r = subprocess.run([SIM, "compile", arg, "/tmp/census/out_%s.mjs" % (k if kind == "syn" else "c")], capture_output=True, text=True, timeout=30)
    except subprocess.TimeoutExpired:
        return []
    if kind == "syn": os.remove(f)
    if not r.stdout.startswith("ERR"): return []
    try:
        ds = json.loads(json.loads(r.stdout[4:])["diag"])["diagnostics"]
    except Exception:
        return []
    return [(d.get("KnownFile") or d.get("UnknownFile"))["message"] for d in ds]
seen = collections.Counter()
with ThreadPoolExecutor(16) as ex:
    for msgs in ex.map(one, jobs):
        for m in msgs:
            hit = [v for v, t in texts.items() if t and m.startswith(t)]
            hit.sort(key=lambda v: -len(texts[v]))
            seen[hit[0] if hit else "?" + m[:40]] += 1
print("variants:", len(variants), "with static text:", len(texts))
print("reached:", len([v for v in variants if seen[v]]))
print("NOT reached:", [v for v in variants if not seen[v]])
print("unmatched:", [(k, c) for k, c in seen.items() if k.startswith("?")][:20])
