#!/usr/bin/env python3
"""gram_stats.py <first seed> <n> : compile grammar projects one process each; outcome statistics (triage aid)"""
import json, subprocess, sys, os, collections, re
from concurrent.futures import ThreadPoolExecutor
first, n = int(sys.argv[1]), int(sys.argv[2])
SIM = "/verif/target/release/sim"
os.makedirs("/tmp/gram", exist_ok=True)
def one(seed):
    f = f"/tmp/gram/{seed}.json"
    p = subprocess.run([SIM, "grammar", str(seed)], capture_output=True, text=True)
    open(f, "w").write(p.stdout)
    pid = json.loads(p.stdout)["id"]
    try:
        r = subprocess.run([SIM, "compile", f, f"/tmp/gram/{seed}.mjs"], capture_output=True, text=True, timeout=20)
    except subprocess.TimeoutExpired:
        return seed, pid, "TIMEOUT", ""
    if r.returncode == 0:
        os.remove(f); return seed, pid, "OK", ""
    if r.returncode == 1 and r.stdout.startswith("ERR"):
        msg = r.stdout[4:]
        os.remove(f)
        return seed, pid, "DIAG", msg
    return seed, pid, f"CRASH rc={r.returncode}", (r.stdout + r.stderr)[-400:]
cnt = collections.Counter(); msgs = collections.Counter(); bad = []
with ThreadPoolExecutor(16) as ex:
    for seed, pid, kind, msg in ex.map(one, range(first, first + n)):
        mode = "wild" if pid.startswith("gram_w") else "tame"
        cnt[(mode, kind.split()[0])] += 1
        if kind == "DIAG":
            try:
                ds = json.loads(json.loads(msg)["diag"])["diagnostics"]
                first = ds[0]; first = first.get("KnownFile") or first.get("UnknownFile")
                m = re.sub(r"'[^']*'", "'..'", first["message"])[:90]
            except Exception:
                m = msg[:100]
            msgs[(mode, m)] += 1
        elif kind != "OK":
            bad.append((seed, pid, kind, msg))
for k, v in sorted(cnt.items()): print(k, v)
print("--- diagnostics")
for k, v in msgs.most_common(40): print(v, k)
print("--- bad")
for b in bad[:40]: print(b)
