#!/usr/bin/env python3
"""try.py 'src of entry' [name=src ...] : compile a tiny project with the native session, 10 s limit"""
import json,sys,subprocess,tempfile,os
files={"/p/entry.ts":sys.argv[1]}
for a in sys.argv[2:]:
    k,v=a.split('=',1); files["/p/"+k]=v
p={"id":"try","entry":"/p/entry.ts","settings":{"string_formats":[],"number_formats":[]},"files":files}
f=tempfile.mktemp(suffix='.json'); json.dump(p,open(f,'w'))
try:
    r=subprocess.run(["/verif/target/release/sim","compile",f,"/tmp/try_out.mjs"],capture_output=True,text=True,timeout=10)
    print(r.returncode, r.stdout[:3000], r.stderr[-2000:])
except subprocess.TimeoutExpired:
    print("TIMEOUT")
os.remove(f)
