#!/usr/bin/env python3
"""micromut.py <file under /repo> <property> [--lines a-b] [--max N] [--env K=V ...]

Sensitivity measurement: applies small syntactic mutations (relational / arithmetic operator swaps,
constants +-1, boolean flips, dropped single-line statements) to one source file of /repo, runs the
registered quick check of <property> against each and records killed (exit 1) / survived (exit 0)
/ invalid (exit 2: does not compile or harness error). the repository (VERIF_REPO, default /repo) is restored after every mutant. With VERIF_HOME / VERIF_REPO pointing at a shadow copy of /verif (sim/Cargo.toml path dependencies rewritten) and a scratch worktree, a campaign runs without touching /repo.
Writes /verif/out/micromut_<property>_<file>.json ; survivors are listed for inspection
(equivalent mutants and mutants outside the claimed clause are expected among them)."""
import json, os, re, subprocess, sys, time

path = sys.argv[1]
prop = sys.argv[2]
args = sys.argv[3:]
lo, hi, maxn, env = 1, 10**9, 10**9, dict(os.environ)
i = 0
while i < len(args):
    if args[i] == "--lines":
        lo, hi = map(int, args[i + 1].split("-")); i += 2
    elif args[i] == "--max":
        maxn = int(args[i + 1]); i += 2
    elif args[i] == "--env":
        k, v = args[i + 1].split("=", 1); env[k] = v; i += 2
    else:
        i += 1
REPO = os.environ.get("VERIF_REPO", "/repo")
HOME = os.environ.get("VERIF_HOME", "/verif")
full = os.path.join(REPO, path)
orig = open(full).read()
lines = orig.split("\n")

RULES = [
    (r"(?<![<>=!])>=(?!=)", ">"), (r"(?<![<>=!-])>(?![>=])", ">="),
    (r"(?<![<>=!])<=(?!=)", "<"), (r"(?<![<>=!])<(?![<=])", "<="),
    (r"===", "!=="), (r"!==", "==="), (r"(?<![=!<>])==(?!=)", "!="), (r"!=(?!=)", "=="),
    (r" \+ ", " - "), (r" - ", " + "), (r" \+= ", " -= "),
    (r"&&", "||"), (r"\|\|", "&&"),
    (r"\btrue\b", "false"), (r"\bfalse\b", "true"),
    (r">>>", ">>"), (r"\b64\b", "63"), (r"\b64\b", "65"), (r"\b56\b", "55"), (r"\b56\b", "57"), (r"\b8\b", "7"), (r"\b0x80\b", "0x40"),
    (r"\b1\b", "2"), (r"\b0\b", "1"),
    (r"\.insert\(", ".entry_placeholder_("),  # replaced below for rust maps
    (r"if let Some\(it\) = self\.files\.get\(file_name\) \{", "if false {"),
]

mutants = []
for ln, line in enumerate(lines, 1):
    if ln < lo or ln > hi:
        continue
    st = line.strip()
    if not st or st.startswith("//") or st.startswith("*") or st.startswith("/*") or st.startswith("import ") or st.startswith("use "):
        continue
    for pat, rep in RULES:
        if "entry_placeholder_" in rep:
            continue
        for m in re.finditer(pat, line):
            new = line[: m.start()] + rep + line[m.end():]
            if new != line:
                mutants.append((ln, f"{pat} -> {rep} @col{m.start()}", new))
    # drop a single-line statement
    if st.endswith(";") and not st.startswith(("let ", "const ", "return", "use ", "pub ", "private ", "export ", "type ", "}")) and "=" not in st.split("(")[0][:3]:
        indent = line[: len(line) - len(line.lstrip())]
        mutants.append((ln, "drop statement", indent + "// dropped"))

# de-duplicate, cap
seen, uniq = set(), []
for m in mutants:
    k = (m[0], m[2])
    if k not in seen:
        seen.add(k); uniq.append(m)
step = max(1, len(uniq) // maxn) if maxn < len(uniq) else 1
uniq = uniq[::step][:maxn]
print(f"{len(uniq)} mutants of {path} (lines {lo}-{min(hi, len(lines))})", flush=True)
results = []
t0 = time.time()
try:
    for n, (ln, desc, new) in enumerate(uniq):
        mutated = lines[:]
        mutated[ln - 1] = new
        open(full, "w").write("\n".join(mutated))
        r = subprocess.run(["./check", prop, "--tier", "quick"], cwd=HOME, capture_output=True, text=True, env=env, timeout=3600)
        verdict = {0: "survived", 1: "killed"}.get(r.returncode, "invalid")
        cls = [l.split("class=")[1] for l in r.stdout.splitlines() if l.startswith("VIOLATION") and "class=" in l][:2]
        results.append({"line": ln, "mutation": desc, "original": lines[ln - 1].strip(), "mutated": new.strip(), "verdict": verdict, "classes": cls})
        print(f"[{n+1}/{len(uniq)}] L{ln} {verdict:8s} {desc:34s} | {new.strip()[:90]}", flush=True)
finally:
    open(full, "w").write(orig)
k = sum(1 for r in results if r["verdict"] == "killed")
s = sum(1 for r in results if r["verdict"] == "survived")
inv = sum(1 for r in results if r["verdict"] == "invalid")
out = {"file": path, "property": prop, "mutants": len(results), "killed": k, "survived": s, "invalid": inv, "wall_s": round(time.time() - t0), "results": results}
os.makedirs(f"{HOME}/out", exist_ok=True)
name = f"{HOME}/out/micromut_{prop}_{os.path.basename(path)}.json"
json.dump(out, open(name, "w"), indent=1)
print(f"killed {k} survived {s} invalid {inv} -> {name}")
