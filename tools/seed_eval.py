#!/usr/bin/env python3
"""seed_eval.py <seed_dir> <id> <worktree> <property> <demo command with {wt}> [extra checks...]

Confirms an independently written property-breaking change (patch applies, existing suite passes
with it, demonstration fails with it and passes without it) in the scratch worktree, then runs the
registered quick check(s) against /repo with the patch applied and reverts /repo straight away.
Writes /verif/seeded/<id>/{patch.diff, notes.md, demo..., meta.json}."""
import json, os, shutil, subprocess, sys, time

seed_dir, sid, wt, prop, demo = sys.argv[1:6]
extra_props = sys.argv[6:]
out = f"/verif/seeded/{sid}"
os.makedirs(out, exist_ok=True)
env = dict(os.environ, CARGO_NET_OFFLINE="true")


def sh(cmd, cwd=None, timeout=3600):
    r = subprocess.run(cmd, shell=True, cwd=cwd, capture_output=True, text=True, timeout=timeout, env=env)
    return r.returncode, (r.stdout + r.stderr)


def reset(d):
    sh("git checkout -- . && git clean -fd -e target", cwd=d)


meta = {"id": sid, "property": prop, "source": "independent sub-agent, given only the property text and a scratch worktree", "ran": []}
patch = os.path.join(seed_dir, "patch.diff")
reset(wt)
rc, o = sh(f"git apply --check {patch}", cwd=wt)
meta["patch_applies"] = rc == 0
if rc != 0:
    print("patch does not apply:", o)
    json.dump(meta, open(f"{out}/meta.json", "w"), indent=1)
    sys.exit(1)
files = sh(f"git apply --numstat {patch}", cwd=wt)[1].split("\n")
touched = [l.split("\t")[2] for l in files if "\t" in l]
meta["files_touched"] = touched
rust = any(f.endswith(".rs") or f.endswith(".toml") for f in touched)

# demonstration on the unmodified tree
cmd = demo.replace("{wt}", wt)
rc0, o0 = sh(cmd, timeout=1800)
meta["ran"].append({"cmd": cmd, "tree": "unmodified", "exit": rc0, "tail": o0[-600:]})
sh(f"git apply {patch}", cwd=wt)
if rust:
    rc, o = sh("cargo test --workspace --no-fail-fast --offline 2>&1 | grep -E '^test result' ", cwd=wt, timeout=3600)
    passed = sum(int(l.split()[3]) for l in o.splitlines() if l.startswith("test result"))
    failed = sum(int(l.split()[5]) for l in o.splitlines() if l.startswith("test result"))
    meta["suite_with_change"] = {"passed": passed, "failed": failed}
else:
    meta["suite_with_change"] = "change touches only the TypeScript client runtime; the pinned Rust suite does not execute it"
rc1, o1 = sh(cmd, timeout=1800)
meta["ran"].append({"cmd": cmd, "tree": "with change", "exit": rc1, "tail": o1[-600:]})
reset(wt)
meta["demonstration_confirmed"] = (rc0 == 0 and rc1 != 0)

# our checks against /repo with the change applied
results = {}
# one evaluation at a time touches /repo (the confirmation above runs in the scratch worktree and may overlap)
LOCK = os.environ.get("REPO_LOCK")
while LOCK:
    try:
        os.mkdir(LOCK); break
    except FileExistsError:
        time.sleep(3)
rc, o = sh(f"git -C /repo apply {patch}")
if rc != 0:
    print("cannot apply to /repo", o)
else:
    try:
        for p in [prop] + extra_props:
            t = time.time()
            rc, o = sh(f"./check {p} --tier quick", cwd=os.environ.get("EVAL_HOME", "/verif"), timeout=3600)
            lines = [l for l in o.splitlines() if l.startswith("VIOLATION") or l.startswith("HARNESS") or l.startswith("SUMMARY")]
            results[p] = {"exit": rc, "wall_s": round(time.time() - t, 1), "lines": lines[:8]}
            # keep the replay files of the detection
            for l in lines:
                if l.startswith("VIOLATION") and "replay=" in l:
                    rp = l.split("replay=")[1].split()[0]
                    if os.path.exists(rp):
                        os.makedirs(f"{out}/replays", exist_ok=True)
                        shutil.copy(rp, f"{out}/replays/")
    finally:
        sh("git -C /repo checkout -- . && git -C /repo clean -fdq packages")
if LOCK:
    os.rmdir(LOCK)
meta["checks_with_change"] = results
meta["detected_by"] = [p for p, r in results.items() if r["exit"] == 1]
shutil.copy(patch, f"{out}/patch.diff")
for f in os.listdir(seed_dir):
    src = os.path.join(seed_dir, f)
    if f == "patch.diff":
        continue
    if os.path.isdir(src):
        shutil.copytree(src, f"{out}/{f}", dirs_exist_ok=True, ignore=shutil.ignore_patterns("node_modules", "target"))
    else:
        shutil.copy(src, f"{out}/{f}")
json.dump(meta, open(f"{out}/meta.json", "w"), indent=1)
print(json.dumps({k: meta[k] for k in ("id", "demonstration_confirmed", "suite_with_change", "detected_by", "checks_with_change")}, indent=1))
