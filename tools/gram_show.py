#!/usr/bin/env python3
"""gram_show.py <pattern> <first> <n> [max]: show grammar projects whose compile output matches pattern"""
import json, subprocess, sys, re
pat, first, n = sys.argv[1], int(sys.argv[2]), int(sys.argv[3])
mx = int(sys.argv[4]) if len(sys.argv) > 4 else 3
SIM = "/verif/target/release/sim"
shown = 0
for seed in range(first, first + n):
    p = subprocess.run([SIM, "grammar", str(seed)], capture_output=True, text=True).stdout
    if '"id": "gram_t' not in p and '--wild' not in sys.argv: continue
    f = "/tmp/gram_show.json"; open(f, "w").write(p)
    try:
        r = subprocess.run([SIM, "compile", f, "/tmp/gram_show.mjs"], capture_output=True, text=True, timeout=20)
        out = r.stdout + r.stderr
    except subprocess.TimeoutExpired:
        out = "TIMEOUT"
    if re.search(pat, out):
        print("=== seed", seed)
        for fn, c in json.loads(p)["files"].items(): print("--", fn); print(c)
        try:
            d = json.loads(json.loads(out[4:])["diag"])
            for x in d["diagnostics"][:4]: print("DIAG", json.dumps(x)[:400])
        except Exception as e:
            print(out[:600])
        shown += 1
        if shown >= mx: break
