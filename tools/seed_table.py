#!/usr/bin/env python3
"""seed_table.py : prints the markdown table of DESIGN.md 9.8 from seeded/*/meta.json, plus the counts."""
import glob, json, re
rows = []
for f in sorted(glob.glob("/verif/seeded/*/meta.json")):
    m = json.load(open(f))
    det = ",".join(m.get("detected_by") or []) or "-"
    fe = m.get("first_evaluation", "")
    if m.get("breaks_current_tree") is False:
        when = "n/a (neutralised)"
    elif not m.get("detected_by"):
        when = "NOT caught"
    elif fe.startswith("not detected at first") or fe.startswith("not detected (or not evaluable) at first"):
        when = "after strengthening"
    else:
        when = "as first evaluated"
    rows.append((m["id"], m["property"], det, when, m.get("what", "").replace("|", "\\|")))
print("| id | property | caught by | when | what the change is |")
print("|----|----------|-----------|------|--------------------|")
for r in rows:
    print("| " + " | ".join(r) + " |")
from collections import Counter
c = Counter(r[3] for r in rows)
print()
print(len(rows), dict(c))
rounds = {"1 (a, b)": "ab", "2 (c)": "c", "3 (d)": "d", "4 (e, f)": "ef"}
for rn, letters in rounds.items():
    rr = [r for r in rows if re.match(r"c\d\d[" + letters + r"]-", r[0])]
    print("round", rn, len(rr), dict(Counter(r[3] for r in rr)))
