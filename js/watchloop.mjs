// The watch loop of commandeer.ts, run for real with controllable stand-ins (see hostlib.buildTsNode).
// What ssim's watcher model assumes - and what C14 needs from the JavaScript side - is checked on
// seeded histories of saves and change events:
//   W1  a change event for a watched file hands the file's CURRENT content to the session
//       (update_file_content(path, content on disk now)), before anything is built;
//   W2  and then a build is started;
//   W3  every file a build reads becomes a watched file (a later save of it reaches the session);
//   W4  after a successful build the output on disk is the code of that build, not an earlier one.
import fs from "node:fs";
import path from "node:path";
import { Rng } from "./lib.mjs";
import { buildTsNode } from "./hostlib.mjs";

export function watchLoopLeg(outDir, N, root) {
  const work = path.join(outDir, "watchloop_host_" + process.pid);
  const res = { ran: true, histories: N, change_events: 0, builds: 0, files_read: 0, violations: [] };
  let T;
  try {
    T = buildTsNode(work);
  } catch (e) {
    return { ran: false, reason: String(e && e.message).slice(0, 300), violations: [] };
  }
  const cwd0 = process.cwd();
  const quiet = (fn) => {
    const e = console.error, l = console.log;
    console.error = () => {};
    console.log = () => {};
    try {
      return fn();
    } finally {
      console.error = e;
      console.log = l;
    }
  };
  const viol = (cls, detail) => {
    if (!res.violations.some((v) => v.class === cls)) res.violations.push({ class: cls, detail });
  };
  try {
    for (let i = 0; i < N; i++) {
      const rng = new Rng(root, "watchloop", i);
      const dir = path.join(outDir, "watchloop_proj_" + process.pid);
      fs.rmSync(dir, { recursive: true, force: true });
      fs.mkdirSync(dir, { recursive: true });
      const files = ["entry.ts", "a.ts", "b.ts", "sub/c.ts"];
      const abs = (f) => path.join(dir, f);
      const version = {};
      const put = (f) => {
        version[f] = (version[f] || 0) + 1;
        fs.mkdirSync(path.dirname(abs(f)), { recursive: true });
        fs.writeFileSync(abs(f), `// ${f} version ${version[f]}\nexport type T = ${version[f]};\n`);
      };
      for (const f of files) put(f);
      fs.writeFileSync(abs("bff.json"), JSON.stringify({ parser: "entry.ts", outputDir: "gen", module: rng.pick(["esm", "cjs", undefined]) }));
      let readSet = ["entry.ts", ...files.slice(1).filter(() => rng.chance(1, 2))];
      let buildNo = 0;
      let lastCode = null;
      globalThis.__beff_cli_opts = { watch: true, project: abs("bff.json"), verbose: false };
      globalThis.__wasm_behaviour = {
        reads: () => readSet.map(abs),
        result: () => {
          buildNo++;
          res.builds++;
          if (rng.chance(1, 5)) return undefined; // a build that fails
          lastCode = `/*CODE ${i}.${buildNo}*/`;
          return lastCode;
        },
      };
      process.chdir(dir);
      const C = T.newProcess();
      quiet(() => C.commanderExec());
      const everRead = new Set(readSet);
      const steps = rng.range(2, 10);
      for (let s = 0; s < steps; s++) {
        const r = rng.below(6);
        if (r === 0) {
          // the imports of the project change: the next build reads another set of files
          readSet = ["entry.ts", ...files.slice(1).filter(() => rng.chance(1, 2))];
          continue;
        }
        const f = rng.pick(files);
        put(f);
        if (rng.chance(1, 4)) put(f); // saved twice before the watcher reports
        const ws = globalThis.__watchers.filter((w) => w.path === abs(f) && w.ev === "change");
        if (!ws.length) continue; // not watched (never read): nothing reaches the session, by design
        const before = globalThis.__wasm_calls.length;
        const codeBefore = lastCode;
        quiet(() => ws[0].cb(abs(f)));
        res.change_events++;
        const calls = globalThis.__wasm_calls.slice(before);
        const first = calls[0];
        const disk = fs.readFileSync(abs(f), "utf8");
        if (!first || first.name !== "update_file_content" || first.args[0] !== abs(f) || first.args[1] !== disk) {
          viol("watch-loop-change-does-not-hand-the-current-content-over", { history: i, file: f, first_call: first ? { name: first.name, file: first.args[0], content: String(first.args[1]).slice(0, 80) } : null, on_disk: disk.slice(0, 80) });
        }
        const ub = calls.findIndex((c) => c.name === "update_file_content");
        const bb = calls.findIndex((c) => c.name === "bundle_to_string_v2");
        if (bb < 0 || (ub >= 0 && bb < ub)) viol("watch-loop-change-is-not-followed-by-a-build", { history: i, file: f, calls: calls.map((c) => c.name) });
        for (const x of readSet) everRead.add(x);
        if (lastCode !== codeBefore) {
          // the build succeeded: the output on disk is this build's code
          const outFile = abs("gen/parser.js");
          const text = fs.existsSync(outFile) ? fs.readFileSync(outFile, "utf8") : "";
          if (!text.includes(lastCode)) viol("watch-loop-output-on-disk-is-not-the-last-successful-build", { history: i, expected: lastCode, found: (text.match(/\/\*CODE [\d.]+\*\//) || [null])[0] });
        }
      }
      res.files_read += everRead.size;
      for (const x of everRead) {
        if (!globalThis.__watchers.some((w) => w.path === abs(x) && w.ev === "change")) viol("watch-loop-file-read-by-a-build-is-not-watched", { history: i, file: x });
      }
      process.chdir(cwd0);
      fs.rmSync(dir, { recursive: true, force: true });
    }
  } catch (e) {
    res.ran = false;
    res.reason = "watch loop could not be driven: " + String(e && e.stack).slice(0, 400);
  } finally {
    process.chdir(cwd0);
    fs.rmSync(work, { recursive: true, force: true });
  }
  return res;
}
