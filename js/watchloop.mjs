// The watch loop of commandeer.ts, run for real with controllable stand-ins (see hostlib.buildTsNode).
// What ssim's watcher model assumes - and what C14 needs from the JavaScript side - is checked on
// seeded histories of saves and change events:
//   W1  a change event for a watched file hands the file's CURRENT content to the session
//       (update_file_content(path, content on disk now)) - at once or after a delay of its own
//       choosing: timers run on a simulated clock that the leg drains -, also when two files are
//       saved together;
//   W2  and a build is started after the content was handed over;
//   W3  every file a build reads becomes a watched file (a later save of it reaches the session);
//   W4  after a successful build the output on disk is the code of that build, not an earlier one
//       (also when two builds differ in white space only - inside a string literal that is a change);
//   W5  the text a change event hands over is the text the host's own read_file_content gives for
//       that file: the two ways a file's text reaches the session agree (line ends, BOM, ...).
import fs from "node:fs";
import path from "node:path";
import { Rng } from "./lib.mjs";
import { buildTsNode } from "./hostlib.mjs";

export async function watchLoopLeg(outDir, N, root) {
  const work = path.join(outDir, "watchloop_host_" + process.pid);
  const res = { ran: true, histories: N, change_events: 0, builds: 0, files_read: 0, violations: [] };
  let T;
  try {
    T = buildTsNode(work);
  } catch (e) {
    return { ran: false, reason: String(e && e.message).slice(0, 300), violations: [] };
  }
  const cwd0 = process.cwd();
  // simulated clock: timers of the code under test go into a queue ordered by (due time, sequence)
  // and fire when the leg lets time pass; no real waiting, no real nondeterminism
  const real = { setTimeout: globalThis.setTimeout, clearTimeout: globalThis.clearTimeout, setInterval: globalThis.setInterval, clearInterval: globalThis.clearInterval, setImmediate: globalThis.setImmediate };
  const clock = {
    now: 0,
    seq: 0,
    q: [],
    add(fn, ms, args, every) {
      const t = { id: ++this.seq, at: this.now + Math.max(0, Number(ms) || 0), fn, args, every };
      this.q.push(t);
      return t.id;
    },
    drain() {
      let guard = 0;
      while (this.q.length && guard++ < 10000) {
        this.q.sort((a, b) => a.at - b.at || a.id - b.id);
        const t = this.q.shift();
        if (t.every != null) {
          if (t.at > this.now + 60000) continue; // intervals: one simulated minute is enough
          this.q.push({ ...t, at: t.at + Math.max(1, t.every) });
        }
        this.now = Math.max(this.now, t.at);
        t.fn(...t.args);
      }
      this.q = this.q.filter((t) => t.every == null);
    },
  };
  globalThis.setTimeout = (fn, ms, ...args) => clock.add(fn, ms, args, null);
  globalThis.clearTimeout = (id) => { clock.q = clock.q.filter((t) => t.id !== id); };
  globalThis.setInterval = (fn, ms, ...args) => clock.add(fn, ms, args, Number(ms) || 1);
  globalThis.clearInterval = globalThis.clearTimeout;
  globalThis.setImmediate = (fn, ...args) => clock.add(fn, 0, args, null);
  const quiet = (fn) => {
    const e = console.error, l = console.log;
    console.error = () => {};
    console.log = () => {};
    try {
      return fn();
    } finally {
      console.error = e;
      console.log = l;
    }
  };
  const viol = (cls, detail) => {
    if (!res.violations.some((v) => v.class === cls)) res.violations.push({ class: cls, detail });
  };
  // A host may do its work asynchronously (promise jobs, fs.promises, callback-style fs calls): asynchronous
  // file operations of the code under test are counted while they are in flight, and after every step the leg
  // lets simulated time run AND gives the real event loop turns until nothing moves any more - no timer left,
  // no file operation in flight, no new call to the wasm package for three turns. Quiescence, not a wall clock,
  // ends the wait, so machine load decides nothing.
  let inflight = 0;
  const realFsP = {};
  for (const k of Object.keys(fs.promises)) {
    if (typeof fs.promises[k] !== "function") continue;
    realFsP[k] = fs.promises[k];
    fs.promises[k] = (...a) => {
      inflight++;
      return Promise.resolve(realFsP[k].apply(fs.promises, a)).finally(() => { inflight--; });
    };
  }
  const realFsCb = {};
  for (const k of ["readFile", "writeFile", "stat", "lstat", "access", "mkdir", "rename", "unlink", "readdir", "rm", "appendFile", "copyFile"]) {
    realFsCb[k] = fs[k];
    fs[k] = (...a) => {
      const cb = a[a.length - 1];
      if (typeof cb !== "function") return realFsCb[k].apply(fs, a);
      inflight++;
      a[a.length - 1] = (...r) => { inflight--; cb(...r); };
      return realFsCb[k].apply(fs, a);
    };
  }
  const turn = () => new Promise((r) => real.setImmediate(r));
  const settle = async () => {
    let idle = 0;
    let turns = 0;
    let waited = 0;
    while (idle < 3 && turns < 5000 && waited < 20000) {
      const before = (globalThis.__wasm_calls || []).length;
      quiet(() => clock.drain());
      if (inflight > 0) {
        // a real file operation of the code under test is in flight: its completion is awaited (however long
        // the machine takes), not a deadline
        await new Promise((r) => real.setTimeout(r, 1));
        waited++;
        idle = 0;
        continue;
      }
      turns++;
      await turn();
      if (clock.q.length === 0 && inflight === 0 && (globalThis.__wasm_calls || []).length === before) idle++;
      else idle = 0;
    }
    res.event_loop_turns = (res.event_loop_turns || 0) + turns;
    if (waited >= 20000 || turns >= 5000) res.settle_gave_up = (res.settle_gave_up || 0) + 1;
  };
  const realConsole = { error: console.error, log: console.log, warn: console.warn, info: console.info };
  // (the same for a promise of the loop that is rejected and nobody listens: Node ends the process)
  const onUnhandled = (e) => viol("watch-loop-dies-of-an-error-it-does-not-catch", { unhandled_rejection: String(e && e.message).slice(0, 200) });
  process.on("unhandledRejection", onUnhandled);
  try {
    for (let i = 0; i < N; i++) {
      const rng = new Rng(root, "watchloop", i);
      const dir = path.join(outDir, "watchloop_proj_" + process.pid);
      fs.rmSync(dir, { recursive: true, force: true });
      fs.mkdirSync(dir, { recursive: true });
      // (files of linked workspace packages are named by their node_modules path)
      const files = ["entry.ts", "a.ts", "b.ts", "sub/c.ts", "node_modules/linked-pkg/index.ts", "packages/lib/node_modules/dep/src/t.ts"];
      const style = Object.fromEntries(files.map((f) => [f, rng.below(5)]));
      const abs = (f) => path.join(dir, f);
      const version = {};
      const coarse = rng.chance(1, 3);
      let tick = 0;
      const put = (f) => {
        version[f] = (version[f] || 0) + 1;
        fs.mkdirSync(path.dirname(abs(f)), { recursive: true });
        let text = `// ${f} version ${version[f]}\nexport type T = ${version[f]};\nexport type M = \`line one\nline two ${version[f]}\`;\n`;
        if (style[f] === 1) text = text.replace(/\n/g, "\r\n");
        else if (style[f] === 2) text = "\ufeff" + text;
        else if (style[f] === 3) text = text.replace(/;\n/g, ";  \t\n") + "\n\n";
        fs.writeFileSync(abs(f), text);
        // a file system with coarse time stamps, or a tool that restores them (rsync -t, cp -p):
        // saves with other text and the modification time of the save before
        if (coarse) fs.utimesSync(abs(f), 1700000000 + Math.floor(tick / 4), 1700000000 + Math.floor(tick / 4));
        tick++;
      };
      for (const f of files) put(f);
      fs.writeFileSync(abs("bff.json"), JSON.stringify({ parser: "entry.ts", outputDir: "gen", module: rng.pick(["esm", "cjs", undefined]) }));
      let readSet = ["entry.ts", ...files.slice(1).filter(() => rng.chance(1, 2))];
      let buildNo = 0;
      let lastCode = null;
      let lastOk = false;
      let outIsDir = false;
      globalThis.__beff_cli_opts = { watch: true, project: abs("bff.json"), verbose: false };
      globalThis.__wasm_behaviour = {
        reads: () => readSet.map(abs),
        result: () => {
          buildNo++;
          res.builds++;
          lastOk = false;
          if (rng.chance(1, 5)) return undefined; // a build that fails
          lastOk = true;
          // one build in five gives exactly the code of the build before (a save that changed a comment only)
          if (lastCode && rng.chance(1, 5)) return lastCode;
          const lit = JSON.stringify(rng.pick(["on hold", "onhold", "on  hold", "on\thold", "on hold "]));
          // one build in three differs from the one before in white space inside a string literal only
          if (lastCode && rng.chance(1, 3)) lastCode = lastCode.replace(/"[^"]*"/, lit);
          else lastCode = `/*CODE ${i}.${buildNo}*/ export const s = ${lit};`;
          return lastCode;
        },
      };
      process.chdir(dir);
      const C = T.newProcess();
      console.error = console.log = console.warn = console.info = () => {};
      quiet(() => C.commanderExec());
      await settle();
      const everRead = new Set(readSet);
      const steps = rng.range(2, 10);
      for (let s = 0; s < steps; s++) {
        const r = rng.below(6);
        if (r === 0) {
          // the imports of the project change: the next build reads another set of files
          readSet = ["entry.ts", ...files.slice(1).filter(() => rng.chance(1, 2))];
          continue;
        }
        // one save, or two files saved together (save-all, a formatter, a checkout)
        const saved = rng.chance(1, 4) ? rng.shuffle([...files]).slice(0, 2) : [rng.pick(files)];
        // somebody else touches the output directory between two builds (git checkout / stash / clean, a
        // build script): the generated file is gone, or holds something else
        const outFile = abs("gen/parser.js");
        if (outIsDir) {
          // ... and puts things right again before the next save
          fs.rmSync(outFile, { recursive: true, force: true });
          outIsDir = false;
        } else if (rng.chance(1, 6)) {
          res.output_interfered = (res.output_interfered || 0) + 1;
          const how = rng.below(5);
          if (how < 2) fs.rmSync(outFile, { force: true });
          else if (how < 4) {
            if (fs.existsSync(path.dirname(outFile))) fs.writeFileSync(outFile, "/* restored from version control */\n");
          } else if (fs.existsSync(path.dirname(outFile))) {
            // the path of the generated file is taken by a directory for a while: builds cannot write (whatever
            // they do about it), and once it is gone the loop must be back to normal
            fs.rmSync(outFile, { force: true });
            fs.mkdirSync(outFile);
            outIsDir = true;
          }
        }
        // a save that is not atomic: the change event arrives while the file is gone, then the file is back with
        // new text and a second event follows (nothing is asked of the first event; everything of the second)
        if (rng.chance(1, 8)) {
          for (const f of saved) {
            const ws0 = globalThis.__watchers.filter((w) => w.path === abs(f) && w.ev === "change");
            if (!ws0.length) continue;
            fs.rmSync(abs(f), { force: true });
            try {
              quiet(() => ws0[0].cb(abs(f)));
            } catch {}
            await settle();
            res.events_for_a_missing_file = (res.events_for_a_missing_file || 0) + 1;
          }
        }
        for (const f of saved) {
          put(f);
          if (rng.chance(1, 4)) put(f); // saved twice before the watcher reports
        }
        const before = globalThis.__wasm_calls.length;
        const codeBefore = lastCode;
        const fired = [];
        for (const f of saved) {
          const ws = globalThis.__watchers.filter((w) => w.path === abs(f) && w.ev === "change");
          if (!ws.length) continue; // not watched (never read): nothing reaches the session, by design
          try {
            quiet(() => ws[0].cb(abs(f)));
          } catch (e) {
            // an exception that leaves the listener is an uncaught exception of the watch process: it ends
            viol("watch-loop-dies-of-an-error-it-does-not-catch", { history: i, file: f, error: String(e && e.message).slice(0, 200) });
          }
          fired.push(f);
          res.change_events++;
        }
        if (!fired.length) continue;
        // the loop may defer its work (debouncing, asynchronous reads): simulated time runs and the event loop
        // turns until nothing moves any more
        await settle();
        const calls = globalThis.__wasm_calls.slice(before);
        for (const f of fired) {
          const disk = fs.readFileSync(abs(f), "utf8");
          const ups = calls.map((c, k) => ({ c, k })).filter((x) => x.c.name === "update_file_content" && x.c.args[0] === abs(f));
          const last = ups[ups.length - 1];
          if (!last || last.c.args[1] !== disk) {
            viol("watch-loop-change-does-not-hand-the-current-content-over", { history: i, file: f, saved_together: saved, handed_over: last ? String(last.c.args[1]).slice(0, 80) : null, on_disk: disk.slice(0, 80), calls: calls.map((c) => c.name) });
          } else if (!calls.some((c, k) => c.name === "bundle_to_string_v2" && k > last.k)) {
            viol("watch-loop-change-is-not-followed-by-a-build", { history: i, file: f, calls: calls.map((c) => c.name) });
          }
          if (last && typeof globalThis.read_file_content === "function") {
            let own;
            try {
              own = quiet(() => globalThis.read_file_content(abs(f)));
            } catch {
              own = undefined;
            }
            res.ingress_compared = (res.ingress_compared || 0) + 1;
            if (typeof own === "string" && own !== last.c.args[1]) viol("watch-loop-hands-over-other-text-than-the-host-reads", { history: i, file: f, handed_over: JSON.stringify(String(last.c.args[1]).slice(0, 60)), host_reads: JSON.stringify(own.slice(0, 60)) });
          }
        }
        if (!calls.some((c) => c.name === "bundle_to_string_v2")) viol("watch-loop-change-is-not-followed-by-a-build", { history: i, files: fired, calls: calls.map((c) => c.name) });
        for (const x of readSet) everRead.add(x);
        if (lastOk && !outIsDir && calls.some((c) => c.name === "bundle_to_string_v2")) {
          // the build succeeded: the output on disk is this build's code (also when it is the code of the build
          // before and the file was removed or replaced by somebody else in the meantime)
          const outFile = abs("gen/parser.js");
          const text = fs.existsSync(outFile) ? fs.readFileSync(outFile, "utf8") : "";
          if (!text.includes(lastCode)) viol("watch-loop-output-on-disk-is-not-the-last-successful-build", { history: i, expected: lastCode, found: (text.match(/\/\*CODE [\d.]+\*\/[^\n]*/) || [null])[0] });
        }
      }
      res.files_read += everRead.size;
      for (const x of everRead) {
        if (!globalThis.__watchers.some((w) => w.path === abs(x) && w.ev === "change")) viol("watch-loop-file-read-by-a-build-is-not-watched", { history: i, file: x });
      }
      process.chdir(cwd0);
      fs.rmSync(dir, { recursive: true, force: true });
    }
  } catch (e) {
    res.ran = false;
    res.reason = "watch loop could not be driven: " + String(e && e.stack).slice(0, 400);
  } finally {
    process.off("unhandledRejection", onUnhandled);
    Object.assign(console, realConsole);
    for (const k of Object.keys(realFsP)) fs.promises[k] = realFsP[k];
    for (const k of Object.keys(realFsCb)) fs[k] = realFsCb[k];
    Object.assign(globalThis, real);
    process.chdir(cwd0);
    fs.rmSync(work, { recursive: true, force: true });
  }
  return res;
}
