#!/bin/bash
# ./js/run_jsim.sh <C13|C16> <tier> | selftest | replay <file>
# Rebuilds the Node side's inputs from /repo's working tree (type-stripped client runtime,
# modules emitted by the real compiler), then runs the simulator.
set -u
export VERIF_HOME="${VERIF_HOME:-$(cd "$(dirname "$0")/.." && pwd)}"
export JSRT="$VERIF_HOME/out/jsrt"
SIM="$VERIF_HOME/target/release/sim"
cd "$VERIF_HOME" || exit 2
if ! "$SIM" prepare-js "$JSRT" > out/prepare-js.log 2>&1; then
  cat out/prepare-js.log
  echo "HARNESS-ERROR: cannot prepare the Node side (strip / compile)"
  exit 2
fi
case "${1:-}" in
  selftest) exec node js/jsim.mjs selftest;;
  replay) exec node js/jsim.mjs replay "$2";;
  C13|C16) exec node js/jsim.mjs "$1" "${2:-quick}";;
  *) echo "usage: run_jsim.sh <C13|C16> <tier> | selftest | replay <file>"; exit 2;;
esac
