// Shared by hostprobe.mjs and hostleg.mjs: a runnable copy of the working tree's JavaScript host.
//
// packages/beff-wasm/ts-node/bundler.ts is type-stripped with the simulator's stripper, its import
// lines are turned into require() (what the project's own build does), and it is placed next to
// the module resolver that is committed with it (tsc-slim/out.js, the real TypeScript resolver).
// Three packages are not available offline and are stand-ins: the wasm package itself (the compiler
// is run natively by ssim), chalk (identity), @babel/code-frame (prints the lines it is given).
import fs from "node:fs";
import path from "node:path";
import { createRequire } from "node:module";
import { spawnSync } from "node:child_process";

export function buildHost(work) {
  const HOME = process.env.VERIF_HOME || "/verif";
  const REPO = process.env.VERIF_REPO || "/repo";
  const TS = path.join(REPO, "packages/beff-wasm/ts-node");
  fs.rmSync(work, { recursive: true, force: true });
  fs.mkdirSync(path.join(work, "ts-node/tsc-slim"), { recursive: true });
  fs.mkdirSync(path.join(work, "pkg"), { recursive: true });
  fs.mkdirSync(path.join(work, "node_modules/chalk"), { recursive: true });
  fs.mkdirSync(path.join(work, "node_modules/@babel/code-frame"), { recursive: true });
  const stripped = path.join(work, "bundler.stripped.js");
  const r = spawnSync(path.join(HOME, "target/release/sim"), ["strip", path.join(TS, "bundler.ts"), stripped], { encoding: "utf8" });
  if (r.status !== 0 || !fs.existsSync(stripped)) throw new Error("cannot strip bundler.ts: " + (r.stdout || "") + (r.stderr || ""));
  let s = fs.readFileSync(stripped, "utf8");
  s = s.replace(/import \* as (\w+) from "([^"]+)";/g, 'const $1 = require("$2");');
  s = s.replace(/import \{([^}]*)\} from "([^"]+)";/g, (_m, names, from) => `const {${names.replace(/ as /g, ": ")}} = require("${from}");`);
  s = s.replace(/export class /g, "class ").replace(/export (const|function) /g, "$1 ");
  s += "\nmodule.exports.Bundler = typeof Bundler === 'undefined' ? undefined : Bundler;\n";
  if (/^\s*import\s/m.test(s)) throw new Error("an import form the host builder does not know is left in bundler.ts");
  fs.writeFileSync(path.join(work, "ts-node/bundler.cjs"), s);
  fs.copyFileSync(path.join(TS, "tsc-slim/out.js"), path.join(work, "ts-node/tsc-slim/out.js"));
  fs.writeFileSync(path.join(work, "pkg/beff_wasm.js"), "module.exports = { init() {}, bundle_to_string_v2() {}, bundle_to_diagnostics() { return '{\"diagnostics\":[]}'; }, update_file_content() {} };\n");
  fs.writeFileSync(path.join(work, "node_modules/chalk/index.js"), "const id = (x) => x; const h = { get: (_t, _k) => p, apply: (_t, _th, a) => a[0] }; const p = new Proxy(id, h); module.exports = p;\n");
  fs.writeFileSync(path.join(work, "node_modules/chalk/package.json"), '{"name":"chalk","main":"index.js"}');
  fs.writeFileSync(path.join(work, "node_modules/@babel/code-frame/index.js"), "module.exports.codeFrameColumns = (raw, loc, o) => String(raw).split('\\n').slice(loc.start.line - 1, loc.end.line).join('\\n') + ' <- ' + (o && o.message);\n");
  fs.writeFileSync(path.join(work, "node_modules/@babel/code-frame/package.json"), '{"name":"@babel/code-frame","main":"index.js"}');
  const require = createRequire(path.join(work, "ts-node/x.cjs"));
  const file = require.resolve("./bundler.cjs");
  // one host = one evaluation of bundler.cjs (its module-level state is the session's state);
  // the resolver bundle is stateless between calls and stays loaded
  const newHost = () => {
    delete require.cache[file];
    for (const k of ["resolve_import", "emit_diagnostic", "read_file_content"]) delete globalThis[k];
    const B = require("./bundler.cjs");
    const bundler = typeof B.Bundler === "function" ? new B.Bundler(false) : null;
    const h = { resolve: globalThis.resolve_import, emit: globalThis.emit_diagnostic, read: globalThis.read_file_content, bundler };
    if (typeof h.resolve !== "function") throw new Error("bundler.ts no longer installs globalThis.resolve_import");
    return h;
  };
  return { newHost, require };
}

// what happens between two builds of a watch session, as far as the host is concerned
export function betweenBuilds(host, entry) {
  if (!host.bundler) return;
  host.bundler.updateFileContent(entry, fs.existsSync(entry) ? fs.readFileSync(entry, "utf8") : "");
  host.bundler.bundle_v2(entry, {});
  host.bundler.diagnostics(entry, {});
}
