// Shared by hostprobe.mjs and hostleg.mjs: a runnable copy of the working tree's JavaScript host.
//
// packages/beff-wasm/ts-node/bundler.ts is type-stripped with the simulator's stripper, its import
// lines are turned into require() (what the project's own build does), and it is placed next to
// the module resolver that is committed with it (tsc-slim/out.js, the real TypeScript resolver).
// Three packages are not available offline and are stand-ins: the wasm package itself (the compiler
// is run natively by ssim), chalk (identity), @babel/code-frame (prints the lines it is given).
import fs from "node:fs";
import path from "node:path";
import { createRequire } from "node:module";
import { spawnSync } from "node:child_process";

export function buildHost(work) {
  const HOME = process.env.VERIF_HOME || "/verif";
  const REPO = process.env.VERIF_REPO || "/repo";
  const TS = path.join(REPO, "packages/beff-wasm/ts-node");
  fs.rmSync(work, { recursive: true, force: true });
  fs.mkdirSync(path.join(work, "ts-node/tsc-slim"), { recursive: true });
  fs.mkdirSync(path.join(work, "pkg"), { recursive: true });
  fs.mkdirSync(path.join(work, "node_modules/chalk"), { recursive: true });
  fs.mkdirSync(path.join(work, "node_modules/@babel/code-frame"), { recursive: true });
  const stripped = path.join(work, "bundler.stripped.js");
  const r = spawnSync(path.join(HOME, "target/release/sim"), ["strip", path.join(TS, "bundler.ts"), stripped], { encoding: "utf8" });
  if (r.status !== 0 || !fs.existsSync(stripped)) throw new Error("cannot strip bundler.ts: " + (r.stdout || "") + (r.stderr || ""));
  let s = fs.readFileSync(stripped, "utf8");
  s = s.replace(/^import \* as (\w+) from "([^"]+)";/gm, 'const $1 = require("$2");');
  s = s.replace(/^import \{([^}]*)\} from "([^"]+)";/gm, (_m, names, from) => `const {${names.replace(/ as /g, ": ")}} = require("${from}");`);
  s = s.replace(/export class /g, "class ").replace(/export (const|function) /g, "$1 ");
  s += "\nmodule.exports.Bundler = typeof Bundler === 'undefined' ? undefined : Bundler;\n";
  if (/^\s*import\s/m.test(s)) throw new Error("an import form the host builder does not know is left in bundler.ts");
  fs.writeFileSync(path.join(work, "ts-node/bundler.cjs"), s);
  fs.copyFileSync(path.join(TS, "tsc-slim/out.js"), path.join(work, "ts-node/tsc-slim/out.js"));
  fs.writeFileSync(path.join(work, "pkg/beff_wasm.js"), "module.exports = { init() {}, bundle_to_string_v2() {}, bundle_to_diagnostics() { return '{\"diagnostics\":[]}'; }, update_file_content() {} };\n");
  fs.writeFileSync(path.join(work, "node_modules/chalk/index.js"), "const id = (x) => x; const h = { get: (_t, _k) => p, apply: (_t, _th, a) => a[0] }; const p = new Proxy(id, h); module.exports = p;\n");
  fs.writeFileSync(path.join(work, "node_modules/chalk/package.json"), '{"name":"chalk","main":"index.js"}');
  fs.writeFileSync(path.join(work, "node_modules/@babel/code-frame/index.js"), "module.exports.codeFrameColumns = (raw, loc, o) => String(raw).split('\\n').slice(loc.start.line - 1, loc.end.line).join('\\n') + ' <- ' + (o && o.message);\n");
  fs.writeFileSync(path.join(work, "node_modules/@babel/code-frame/package.json"), '{"name":"@babel/code-frame","main":"index.js"}');
  const require = createRequire(path.join(work, "ts-node/x.cjs"));
  const file = require.resolve("./bundler.cjs");
  // one host = one evaluation of bundler.cjs (its module-level state is the session's state);
  // the resolver bundle is stateless between calls and stays loaded
  const newHost = () => {
    delete require.cache[file];
    for (const k of ["resolve_import", "emit_diagnostic", "read_file_content"]) delete globalThis[k];
    const B = require("./bundler.cjs");
    const bundler = typeof B.Bundler === "function" ? new B.Bundler(false) : null;
    const h = { resolve: globalThis.resolve_import, emit: globalThis.emit_diagnostic, read: globalThis.read_file_content, bundler };
    if (typeof h.resolve !== "function") throw new Error("bundler.ts no longer installs globalThis.resolve_import");
    return h;
  };
  return { newHost, require };
}

// what happens between two builds of a watch session, as far as the host is concerned
export function betweenBuilds(host, entry) {
  if (!host.bundler) return;
  host.bundler.updateFileContent(entry, fs.existsSync(entry) ? fs.readFileSync(entry, "utf8") : "");
  host.bundler.bundle_v2(entry, {});
  host.bundler.diagnostics(entry, {});
}

// ------------------------------------------------------------------------------------------------
// The whole ts-node directory as CommonJS (commandeer.ts, bundler.ts, bundle-to-disk.ts, project.ts)
// with controllable stand-ins for what cannot exist offline: commander (options come from
// globalThis.__beff_cli_opts), chokidar (watchers are recorded in globalThis.__watchers and fired by
// the leg), the wasm package (calls are recorded in globalThis.__wasm_calls; what a build reads and
// returns is decided by globalThis.__wasm_behaviour), the generated glue bundle.
// ------------------------------------------------------------------------------------------------
export function buildTsNode(work) {
  const HOME = process.env.VERIF_HOME || "/verif";
  const REPO = process.env.VERIF_REPO || "/repo";
  const TS = path.join(REPO, "packages/beff-wasm/ts-node");
  fs.rmSync(work, { recursive: true, force: true });
  for (const d of ["ts-node/tsc-slim", "ts-node/generated", "pkg", "node_modules/chalk", "node_modules/@babel/code-frame", "node_modules/commander", "node_modules/chokidar"]) fs.mkdirSync(path.join(work, d), { recursive: true });
  const toCjs = (name) => {
    const stripped = path.join(work, name + ".stripped.js");
    const r = spawnSync(path.join(HOME, "target/release/sim"), ["strip", path.join(TS, name + ".ts"), stripped], { encoding: "utf8" });
    if (r.status !== 0 || !fs.existsSync(stripped)) throw new Error(`cannot strip ${name}.ts: ` + (r.stdout || "") + (r.stderr || ""));
    let s = fs.readFileSync(stripped, "utf8");
    s = s.replace(/^import \* as (\w+) from "([^"]+)";/gm, 'const $1 = require("$2");');
    s = s.replace(/^import \{([^}]*)\} from "([^"]+)";/gm, (_m, names, from) => `const {${names.replace(/ as /g, ": ")}} = require("${from}");`);
    s = s.replace(/^import (\w+) from "([^"]+)";/gm, 'const $1 = (require("$2").default ?? require("$2"));');
    const exported = [];
    s = s.replace(/export (const|class|function) (\w+)/g, (_m, k, n) => (exported.push(n), `${k} ${n}`));
    s = s.replace(/export default /g, "module.exports.default = ");
    s += "\n" + exported.map((n) => `module.exports.${n} = ${n};`).join("\n") + "\n";
    if (/^\s*(import|export)\s/m.test(s)) throw new Error(`an import / export form the builder does not know is left in ${name}.ts`);
    fs.writeFileSync(path.join(work, "ts-node", name + ".js"), s);
    fs.rmSync(stripped);
  };
  for (const n of ["project", "bundler", "bundle-to-disk", "commandeer"]) toCjs(n);
  fs.copyFileSync(path.join(TS, "tsc-slim/out.js"), path.join(work, "ts-node/tsc-slim/out.js"));
  fs.writeFileSync(path.join(work, "ts-node/generated/bundle.js"), 'module.exports.default = { "codegen-v2.js": "/*glue*/", "parser.d.ts": "/*dts*/" };\n');
  fs.writeFileSync(
    path.join(work, "pkg/beff_wasm.js"),
    `const rec = (name, args) => globalThis.__wasm_calls.push({ name, args });
module.exports = {
  init(v) { rec("init", [v]); },
  update_file_content(f, c) { rec("update_file_content", [f, c]); },
  bundle_to_string_v2(entry, settings) {
    rec("bundle_to_string_v2", [entry, settings]);
    const b = globalThis.__wasm_behaviour;
    for (const f of b.reads()) globalThis.read_file_content(f);
    return b.result();
  },
  bundle_to_diagnostics(entry, settings) { rec("bundle_to_diagnostics", [entry, settings]); return '{"diagnostics":[]}'; },
};
`,
  );
  fs.writeFileSync(path.join(work, "node_modules/chalk/index.js"), "const id = (x) => x; const h = { get: (_t, _k) => p, apply: (_t, _th, a) => a[0] }; const p = new Proxy(id, h); module.exports = p;\n");
  fs.writeFileSync(path.join(work, "node_modules/chalk/package.json"), '{"name":"chalk","main":"index.js"}');
  fs.writeFileSync(path.join(work, "node_modules/@babel/code-frame/index.js"), "module.exports.codeFrameColumns = (raw, loc, o) => String(raw).split('\\n').slice(loc.start.line - 1, loc.end.line).join('\\n') + ' <- ' + (o && o.message);\n");
  fs.writeFileSync(path.join(work, "node_modules/@babel/code-frame/package.json"), '{"name":"@babel/code-frame","main":"index.js"}');
  fs.writeFileSync(path.join(work, "node_modules/commander/index.js"), "class Command { name() { return this; } description() { return this; } option() { return this; } parse() { return this; } opts() { return globalThis.__beff_cli_opts; } }\nmodule.exports = { Command };\n");
  fs.writeFileSync(path.join(work, "node_modules/commander/package.json"), '{"name":"commander","main":"index.js"}');
  fs.writeFileSync(path.join(work, "node_modules/chokidar/index.js"), "module.exports = { watch(p) { const w = { on(ev, cb) { globalThis.__watchers.push({ path: p, ev, cb, w }); return w; }, close() { globalThis.__watchers = globalThis.__watchers.filter((x) => x.w !== w); return Promise.resolve(); }, add() { return w; }, unwatch() { return w; }, off() { return w; }, removeAllListeners() { globalThis.__watchers = globalThis.__watchers.filter((x) => x.w !== w); return w; } }; return w; } };\n");
  fs.writeFileSync(path.join(work, "node_modules/chokidar/package.json"), '{"name":"chokidar","main":"index.js"}');
  const require = createRequire(path.join(work, "ts-node/x.js"));
  // one watch process = one evaluation of all four modules
  const newProcess = () => {
    for (const k of Object.keys(require.cache)) if (k.startsWith(path.join(work, "ts-node")) && !k.includes("tsc-slim")) delete require.cache[k];
    delete require.cache[require.resolve(path.join(work, "pkg/beff_wasm.js"))];
    for (const k of ["resolve_import", "emit_diagnostic", "read_file_content"]) delete globalThis[k];
    globalThis.__watchers = [];
    globalThis.__wasm_calls = [];
    return require("./commandeer.js");
  };
  return { newProcess };
}
