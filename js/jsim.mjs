// jsim: client-runtime API-history simulator (Node). Serves C16 (SchemaPrintingContext histories),
// C13 (Hash256Writer write sequences) and the Node import leg of C04.
// One seed per run; no Math.random, no Date in anything that decides a run.
import fs from "node:fs";
import path from "node:path";
import { pathToFileURL, fileURLToPath } from "node:url";
import { createHash } from "node:crypto";
import { Worker as WorkerThread } from "node:worker_threads";
import { Rng, canon, collectRefs, pool, alone, fnv32 } from "./lib.mjs";

const HOME = process.env.VERIF_HOME || "/verif";
const JSRT = process.env.JSRT || path.join(HOME, "out/jsrt");
const ROOT = Number.parseInt(process.env.VERIF_SEED || "1", 10) || 1;
const SELF = fileURLToPath(import.meta.url);

const rt = async (name) => import(pathToFileURL(path.join(JSRT, "node_modules/@beff/client/dist/esm", name + ".js")).href);

function budget(prop, tier) {
  if (process.env.JSIM_RUNS) return Number(process.env.JSIM_RUNS);
  if (prop === "C16") return tier === "quick" ? 40000 : 2000000;
  if (prop === "C13") return tier === "quick" ? 100000 : 3000000;
  return 100;
}

// ------------------------------------------------------------------------------------------------
// module loading (C16)
// ------------------------------------------------------------------------------------------------
let MODS = null;
// modules whose id starts with "stress_" are for the hash256 termination leg only
let STRESS_TOO = false;
async function loadModules() {
  if (MODS) return MODS;
  const index = JSON.parse(fs.readFileSync(path.join(JSRT, "index.json"), "utf8"));
  MODS = [];
  for (const e of index) {
    try {
      const m = await import(pathToFileURL(e.file).href);
      const sf = Object.fromEntries(e.string_formats.map((n) => [n, () => true]));
      const nf = Object.fromEntries(e.number_formats.map((n) => [n, () => true]));
      const P = m.default.buildParsers({ stringFormats: sf, numberFormats: nf });
      const names = Object.keys(P).sort();
      if (names.length > 0 && (STRESS_TOO || !e.id.startsWith("stress_"))) MODS.push({ id: e.id, P, names, cache: new Map(), file: e.file, sf, nf });
    } catch (err) {
      // a module that does not load is the C04 leg's business
    }
  }
  // parsers built at run time with the `b` API and createNamedType / overrideNamedType (the
  // process-global registry of named types): seeded graphs of named types, recursive through
  // placeholders, some with leaves that cannot be printed
  try {
    const B = await rt("b");
    const C = await rt("codegen-v2");
    if (B.b && typeof C.createNamedType === "function" && typeof C.overrideNamedType === "function") {
      for (let k = 0; k < 24; k++) MODS.push(bApiModule(B, C, k));
      MODS.push(deepChainModule(B, C));
    }
  } catch (err) {
    // the b API is an optional part of the workload
  }
  return MODS;
}
// A long chain of named types, every link a few path segments below the one before, with parsers
// that enter the chain at the top, in the middle and near the end: anything a print keeps per call
// (its path, a depth counter) and does not reset when it enters a named type's body makes the
// result depend on where the print started and on what the context holds already.
function deepChainModule(B, C) {
  const { b } = B;
  const n = 48;
  const names = Array.from({ length: n }, (_, i) => `Chain${i}`);
  const named = names.map((nm) => C.createNamedType(nm, b.Unknown()));
  for (let i = 0; i < n; i++) {
    const body = i + 1 < n ? b.Object({ v: b.String(), next: b.Array(b.Object({ inner: named[i + 1], tag: b.Const(i) })) }) : b.Object({ v: b.String(), end: b.Boolean() });
    C.overrideNamedType(names[i], body);
  }
  const P = { ChainTop: named[0], ChainMid: named[20], ChainLow: named[40], ChainHolder: b.Object({ top: named[0], low: b.Array(named[44]) }) };
  return { id: "bapi_deep_chain", P, names: Object.keys(P).sort(), cache: new Map(), file: null, sf: {}, nf: {} };
}
function bApiModule(B, C, k) {
  const rng = new Rng(1, "bapi", k);
  const { b, buntyped } = B;
  const n = rng.range(2, 6);
  // some of the names look like integers (own keys of that kind come first in Object.keys)
  const numeric = rng.chance(1, 2);
  const names = Array.from({ length: n }, (_, i) => (numeric && rng.chance(1, 2) ? String(1000 * (k + 1) + (n - i)) : `Bm${k}N${i}`));
  const named = names.map((nm) => C.createNamedType(nm, b.Unknown()));
  const leaf = () => {
    const r = rng.below(12);
    if (r < 5) return named[rng.below(n)];
    if (r === 5) return b.Array(named[rng.below(n)]);
    if (r === 6 && buntyped) return buntyped.Union(named[rng.below(n)], b.Null());
    if (r === 7) return b.Const(rng.pick(["x", 1, true]));
    if (r === 8) return rng.chance(1, 3) ? b.Date() : b.Uint8Array();
    if (r === 9 && buntyped) return buntyped.Union(b.String(), b.Array(named[rng.below(n)]));
    return rng.pick([b.String(), b.Number(), b.Boolean(), b.Any()]);
  };
  for (let i = 0; i < n; i++) {
    const fields = {};
    for (let f = rng.range(1, 4); f > 0; f--) fields["f" + f] = leaf();
    const body = rng.chance(1, 6) ? b.Array(b.Object(fields)) : b.Object(fields);
    C.overrideNamedType(names[i], body);
  }
  const P = {};
  names.forEach((nm, i) => (P[nm] = named[i]));
  P[`Bm${k}Inline`] = b.Object({ a: named[0], b: b.Array(named[n - 1]) });
  // cannot be printed, but only after a printable named type was met (and stored) on the way
  P[`Bm${k}Poison`] = b.Object({ ok: named[rng.below(n)], bad: b.Date(), ok2: named[rng.below(n)] });
  return { id: `bapi_${k}`, P, names: Object.keys(P).sort(), cache: new Map(), file: null, sf: {}, nf: {} };
}

// A brand-new instance of a compiled module (new runtype objects, no history on them): the
// jsim analogue of ssim's fresh process. Memoised state hidden in runtype instances is a history
// channel that fresh *contexts* over the same instances cannot see.
let PRISTINE_N = 0;
// module instances cannot be unloaded: a worker that has imported this many asks to be replaced
const PRISTINE_CAP = Number(process.env.JSIM_PRISTINE_CAP || 3000);
async function pristine(mod, formatMeta = false) {
  // parsers built with the b API live in the runtime's global registry: there is one instance
  if (!mod.file) return mod;
  PRISTINE_N++;
  const m = await import(pathToFileURL(mod.file).href + "?pristine=" + process.pid + "_" + PRISTINE_N);
  // the same validators, registered in the other spelling (an object that also carries the format
  // name to publish in JSON Schema): the registry is process-wide, the last registration wins
  const meta = (o) => Object.fromEntries(Object.entries(o).map(([k, f]) => [k, { validator: f, jsonSchemaFormat: "published-" + k }]));
  const P = m.default.buildParsers({ stringFormats: formatMeta ? meta(mod.sf) : mod.sf, numberFormats: formatMeta ? meta(mod.nf) : mod.nf });
  return { id: mod.id, P, names: mod.names, cache: new Map(), defNames: mod.defNames, throwing: mod.throwing };
}

const TEMPLATES = ["#/$defs/{name}", "#/components/schemas/{name}", "#/definitions/{name}", "{name}"];
const CONTAINERS = [null, "$defs", "components", "definitions"];

function mkctx(SPC, mod, cfg) {
  const ov = {};
  for (const [k, v] of Object.entries(cfg.overrides || {})) ov[k] = mod.P[v];
  const options = { refPathTemplate: cfg.refPathTemplate, definitionContainerKey: cfg.definitionContainerKey, namedTypeSchemaOverrides: ov };
  const ctx = new SPC(options);
  OPTIONS_OF.set(ctx, options);
  return ctx;
}
// the options object a context was constructed from stays with the caller, who may go on using it
const OPTIONS_OF = new WeakMap();
function defsOf(ctx, cfg) {
  const d = ctx.exportDefinitions();
  return cfg.definitionContainerKey == null ? d : d[cfg.definitionContainerKey] ?? {};
}
function cfgKey(cfg) {
  return canon(cfg);
}
// what a fresh context says about printing `name` alone
function freshSingle(SPC, mod, cfg, name) {
  const key = cfgKey(cfg) + "|" + name;
  let r = mod.cache.get(key);
  if (r) return r;
  const ctx = mkctx(SPC, mod, cfg);
  try {
    const schema = mod.P[name].schemaWithContext(ctx);
    r = { ok: true, schema, cs: canon(schema), defs: defsOf(ctx, cfg) };
  } catch (e) {
    r = { ok: false, msg: String(e && e.message) };
  }
  mod.cache.set(key, r);
  return r;
}
function namesOfModule(SPC, mod) {
  // definition names the module can produce under a plain configuration
  if (mod.defNames) return mod.defNames;
  const cfg = { refPathTemplate: TEMPLATES[0], definitionContainerKey: null, overrides: {} };
  const s = new Set();
  for (const n of mod.names) {
    const f = freshSingle(SPC, mod, cfg, n);
    if (f.ok) for (const k of Object.keys(f.defs)) s.add(k);
  }
  mod.defNames = [...s].sort();
  mod.throwing = mod.names.filter((n) => !freshSingle(SPC, mod, cfg, n).ok);
  return mod.defNames;
}

// Precondition of known finding KF-C16-4: two parsers of the module, each printed alone into a
// fresh context, produce a synthetic discriminated-union variant definition with the SAME name
// (it is derived from the 32-bit structural hash, which ignores alias boundaries) but DIFFERENT
// bodies (one spells a member inline, the other goes through a named type).
// The finding is about ALIAS BOUNDARIES only: the two bodies must say the same once every $ref to a named
// definition is replaced by the definition it points at. Two same-named variant definitions that differ in any
// other way (a title, a keyword, a member) are not this finding (seeded change c16o-2 was attributed to it by the
// looser rule "different bodies").
function sameModuloNamedRefs(a, b, defsA, defsB, cfg, assumed) {
  // equi-recursive comparison: a $ref to a named definition stands for that definition; a pair that is being
  // compared already is assumed equal (recursive types)
  const target = (x, defs) => {
    if (!x || typeof x !== "object" || Array.isArray(x) || typeof x.$ref !== "string") return null;
    for (const k of Object.keys(defs)) if (cfg.refPathTemplate.replace("{name}", () => k) === x.$ref) return k;
    return null;
  };
  for (let guard = 0; guard < 64; guard++) {
    const ka = target(a, defsA);
    const kb = target(b, defsB);
    if (ka === null && kb === null) break;
    const key = (ka !== null ? "r:" + a.$ref : "b:" + canon(a)) + "|" + (kb !== null ? "r:" + b.$ref : "b:" + canon(b));
    if (assumed.has(key)) return true;
    assumed.add(key);
    if (ka !== null) {
      const { $ref, ...rest } = a;
      a = { ...defsA[ka], ...rest };
    }
    if (kb !== null) {
      const { $ref, ...rest } = b;
      b = { ...defsB[kb], ...rest };
    }
  }
  if (Array.isArray(a) || Array.isArray(b)) {
    if (!Array.isArray(a) || !Array.isArray(b) || a.length !== b.length) return false;
    return a.every((x, i) => sameModuloNamedRefs(x, b[i], defsA, defsB, cfg, assumed));
  }
  if (!a || !b || typeof a !== "object" || typeof b !== "object") return a === b;
  const ka = Object.keys(a).sort();
  const kb = Object.keys(b).sort();
  if (ka.length !== kb.length || ka.some((k, i) => k !== kb[i])) return false;
  return ka.every((k) => sameModuloNamedRefs(a[k], b[k], defsA, defsB, cfg, assumed));
}
// calls f with less and less of the stack used up (a ladder of head rooms below the deepest frame the stack allows,
// a few frames at first, then dozens, then hundreds) until it no longer dies of stack exhaustion; returns how many
// calls were cut off. (A first version went up one frame at a time from the very bottom: 400 such steps did not get a
// wrapped hash256 walk past its first few calls, nothing was ever cut off inside a named type.)
function interruptedWalks(f) {
  const at = (d, g) => (d <= 0 ? g() : at(d - 1, g));
  let lo = 0;
  let hi = 1 << 20;
  // deepest d for which at(d, noop) returns
  while (hi - lo > 1) {
    const mid = (lo + hi) >> 1;
    try {
      at(mid, () => 0);
      lo = mid;
    } catch (e) {
      if (!(e instanceof RangeError)) throw e;
      hi = mid;
    }
  }
  let failures = 0;
  const rooms = [];
  for (let h = 1; h < 60; h += 1) rooms.push(h);
  for (let h = 60; h < 600; h += 6) rooms.push(h);
  for (let h = 600; h < 8000; h += 150) rooms.push(h);
  for (const h of rooms) {
    if (h >= lo) break;
    try {
      at(lo - h, f);
      return failures;
    } catch (e) {
      if (e instanceof RangeError) failures++;
      else return failures;
    }
  }
  return failures;
}
function syntheticNameCollision(SPC, mod, cfg) {
  const seen = new Map();
  for (const n of mod.names) {
    const f = freshSingle(SPC, mod, cfg, n);
    if (!f.ok) continue;
    for (const [k, body] of Object.entries(f.defs)) {
      if (!k.startsWith("Discriminated")) continue;
      const c = canon(body);
      const first = seen.get(k);
      if (!first) {
        seen.set(k, { c, body, defs: f.defs });
        continue;
      }
      if (first.c === c) continue;
      let same = false;
      try {
        same = sameModuloNamedRefs(first.body, body, first.defs, f.defs, cfg, new Set());
      } catch {
        same = false;
      }
      if (same) return k;
    }
  }
  return null;
}

function genC16(mods, SPC, index) {
  const rng = new Rng(ROOT, "C16", index);
  // half of the runs on modules that have shared named definitions, recursion, or throwing parsers
  let mod;
  const rich = mods.filter((m) => namesOfModule(SPC, m).length >= 2 && m.names.length >= 2);
  const poison = mods.filter((m) => (namesOfModule(SPC, m), m.throwing.length > 0 && m.names.length >= 2));
  const r = rng.below(8);
  const bapi = mods.filter((m) => m.id.startsWith("bapi_"));
  if (r === 7 && bapi.length && rng.chance(1, 2)) mod = rng.pick(bapi);
  else if (r < 4 && rich.length) mod = rng.pick(rich);
  else if (r < 6 && poison.length) mod = rng.pick(poison);
  else mod = rng.pick(mods);
  const defNames = namesOfModule(SPC, mod);
  const cfg = { refPathTemplate: rng.pick(TEMPLATES), definitionContainerKey: rng.pick(CONTAINERS), overrides: {} };
  if (defNames.length && rng.chance(1, 3)) {
    const n = rng.range(1, Math.min(2, defNames.length));
    // (one override in three, where the module has one, is a parser that cannot be printed)
    for (let i = 0; i < n; i++) cfg.overrides[rng.pick(defNames)] = mod.throwing.length && rng.chance(1, 3) ? rng.pick(mod.throwing) : rng.pick(mod.names);
  }
  // one run in sixteen is four times as long (up to 48 calls on one context); decided by the index without a
  // draw, so that every other index denotes the sequence it denoted before
  const longRun = fnv32("long-c16|" + ROOT + "|" + index) % 16 === 0;
  const nops = rng.range(1, 12) * (longRun ? 4 : 1);
  const ops = [];
  // a small working set of parsers, so that repetitions and shared types actually happen
  const work = rng.shuffle([...mod.names]).slice(0, rng.range(1, Math.min(10, mod.names.length)));
  for (let i = 0; i < nops; i++) {
    if (rng.chance(1, 8)) {
      // the caller keeps what it is handed; sometimes it also edits its copy (drops an entry, adds
      // one of its own), as a document assembled from several sources would
      const o = { op: "export" };
      if (rng.chance(1, 3)) o.edit = rng.pick(["delete", "add", "clear"]);
      ops.push(o);
    }
    else if (rng.chance(1, 10)) {
      // a parser of ANOTHER module into the same context, by preference one that has the name of a
      // parser of this module (names are unique within one generated module only); executed only if
      // it prints without collecting definitions (separately compiled modules share those names)
      const other = rng.pick(mods);
      if (other.id !== mod.id) {
        const shared = other.names.filter((n) => mod.names.includes(n));
        ops.push({ op: "foreign", module: other.id, parser: rng.pick(shared.length ? shared : other.names) });
      }
    }
    else if (rng.chance(1, 8)) ops.push({ op: "flat", parser: rng.pick(work) });
    else if (rng.chance(1, 12)) ops.push({ op: "edit-options", what: rng.below(4), parser: rng.pick(work) });
    else ops.push({ op: "print", parser: rng.pick(work) });
  }
  // one run in eight uses brand-new module instances for the history and for every reference
  const pristineRun = rng.chance(1, 8);
  return { module: mod.id, ctx: cfg, ops, pristine: pristineRun };
}

async function execC16(mods, SPC, run) {
  const base = mods.find((m) => m.id === run.module);
  const usePristine = !!run.pristine && !!base;
  // history instance; reference instances are created per reference print in pristine mode
  const mod = usePristine ? await pristine(base) : base;
  const refInst = new Map();
  const refFor = async (name) => {
    if (!usePristine) return mod;
    let m = refInst.get(name);
    if (!m) {
      m = await pristine(base);
      refInst.set(name, m);
    }
    return m;
  };
  const out = { violations: [], prints: 0, throws: 0, exports: 0, inProgressSeen: 0, defs: 0, overrides: Object.keys(run.ctx.overrides || {}).length };
  if (!mod) {
    out.skipped = "module not loadable";
    return out;
  }
  const cfg = run.ctx;
  const viol = (cls, detail) => {
    if (!out.violations.some((v) => v.class === cls)) out.violations.push({ property: "C16", class: cls, detail });
  };
  out.pristine = usePristine;
  out.long = run.ops.length > 12;
  const ctx = mkctx(SPC, mod, cfg);
  const returned = [];
  const held = [];
  const printedOk = new Set();
  const watch = new Set(namesOfModule(SPC, base));
  for (let i = 0; i < run.ops.length; i++) {
    const op = run.ops[i];
    if (op.op === "export") {
      out.exports++;
      const raw = ctx.exportDefinitions();
      const d = cfg.definitionContainerKey == null ? raw : raw[cfg.definitionContainerKey];
      if (op.edit && d && typeof d === "object") {
        // caller-side edits of ITS copy: never visible to the context
        const ks = Object.keys(d).sort();
        if (op.edit === "delete" && ks.length) delete d[ks[i % ks.length]];
        else if (op.edit === "clear") for (const k of ks) delete d[k];
        else if (op.edit === "add") {
          const pool = [...watch].sort();
          const k = pool.length ? pool[i % pool.length] : "CallerOwned";
          if (!(k in d)) d[k] = { description: "placeholder written by the caller" };
        }
        out.exportEdits = (out.exportEdits || 0) + 1;
      }
      // what the caller holds must not change under it when more is printed later
      held.push({ at: i, raw, cs: canon(raw) });
      continue;
    }
    if (op.op === "foreign") {
      const fm = mods.find((m) => m.id === op.module);
      const FP = fm && fm.P[op.parser];
      if (!FP) continue;
      let ref;
      try {
        const fctx = mkctx(SPC, mod, cfg);
        ref = { ok: true, cs: canon(FP.schemaWithContext(fctx)), defs: Object.keys(defsOf(fctx, cfg)).length };
      } catch {
        ref = { ok: false };
      }
      if (!ref.ok || ref.defs > 0) continue;
      out.foreign = (out.foreign || 0) + 1;
      let got;
      try {
        got = { ok: true, cs: canon(FP.schemaWithContext(ctx)) };
      } catch (e) {
        got = { ok: false, msg: String(e && e.message) };
      }
      if (!got.ok) viol("print-throws-where-fresh-context-returns", { op_index: i, foreign_module: op.module, parser: op.parser, got: got.msg });
      else if (got.cs !== ref.cs) viol("returned-schema-differs-from-fresh-context", { op_index: i, foreign_module: op.module, parser: op.parser, got: JSON.parse(got.cs), fresh: JSON.parse(ref.cs) });
      continue;
    }
    const P = mod.P[op.parser];
    if (!P) continue;
    if (op.op === "edit-options") {
      // the caller adjusts the literal it built this context from (to build the next context of
      // another flavour): nothing the existing context does may change
      const o = OPTIONS_OF.get(ctx);
      if (o) {
        out.optionEdits = (out.optionEdits || 0) + 1;
        if (op.what === 0) o.refPathTemplate = TEMPLATES[(TEMPLATES.indexOf(cfg.refPathTemplate) + 1) % TEMPLATES.length];
        else if (op.what === 1) o.definitionContainerKey = CONTAINERS[(CONTAINERS.indexOf(cfg.definitionContainerKey) + 1) % CONTAINERS.length];
        else if (op.what === 2) for (const k of Object.keys(o.namedTypeSchemaOverrides)) delete o.namedTypeSchemaOverrides[k];
        else for (const k of watch) o.namedTypeSchemaOverrides[k] = P;
      }
      continue;
    }
    if (op.op === "flat") {
      // the non-contextual print of the same parser objects: must not depend on, nor disturb, the
      // contextual prints that share the runtype instances with it
      out.flat = (out.flat || 0) + 1;
      const refMod = await refFor(op.parser);
      const key = "flat|" + op.parser;
      let ref = refMod.cache.get(key);
      if (!ref) {
        try {
          ref = { ok: true, cs: canon(refMod.P[op.parser].schema()) };
        } catch (e) {
          ref = { ok: false, msg: String(e && e.message) };
        }
        refMod.cache.set(key, ref);
      }
      let got;
      try {
        got = { ok: true, cs: canon(P.schema()) };
      } catch (e) {
        got = { ok: false, msg: String(e && e.message) };
      }
      if (got.ok !== ref.ok || (got.ok && got.cs !== ref.cs)) viol("flat-schema-depends-on-earlier-prints", { op_index: i, parser: op.parser, got: got.ok ? JSON.parse(got.cs) : got.msg, reference: ref.ok ? JSON.parse(ref.cs) : ref.msg });
      continue;
    }
    out.prints++;
    const fresh = freshSingle(SPC, await refFor(op.parser), cfg, op.parser);
    let res;
    try {
      res = { ok: true, schema: P.schemaWithContext(ctx) };
    } catch (e) {
      res = { ok: false, msg: String(e && e.message) };
      out.throws++;
      // a print that dies of stack exhaustion: the recursion through named types was not cut (the in-progress
      // mark exists for that) - in the history and, consistently, in every fresh context as well, so that the
      // differential clauses see nothing
      if (e instanceof RangeError) viol("print-recursion-is-not-cut:stack-exhausted", { op_index: i, parser: op.parser, msg: res.msg });
    }
    if (res.ok !== fresh.ok) {
      viol(res.ok ? "print-returns-where-fresh-context-throws" : "print-throws-where-fresh-context-returns", { op_index: i, parser: op.parser, got: res.ok ? res.schema : res.msg, fresh: fresh.ok ? fresh.schema : fresh.msg });
    } else if (res.ok && canon(res.schema) !== fresh.cs) {
      viol("returned-schema-differs-from-fresh-context", { op_index: i, parser: op.parser, got: res.schema, fresh: fresh.schema });
    }
    if (res.ok) {
      returned.push(res.schema);
      if (fresh.ok) printedOk.add(op.parser);
    }
    for (const k of Object.keys(defsOf(ctx, cfg))) watch.add(k);
    // clause 5 uses a public query method; if a refactoring removes it the clause is skipped
    // (the other four clauses still see a stuck in-progress mark through its consequences)
    if (typeof ctx.isDefinitionInProgress === "function")
    for (const k of watch) {
      if (ctx.isDefinitionInProgress(k)) {
        out.inProgressSeen++;
        viol("definition-left-in-progress-after-call", { op_index: i, parser: op.parser, name: k, call_threw: !res.ok });
        break;
      }
    }
  }
  for (const h of held) {
    if (canon(h.raw) !== h.cs) {
      viol("held-export-changed-by-later-calls", { exported_at_op: h.at, then: h.cs, now: canon(h.raw) });
      break;
    }
  }
  const D = defsOf(ctx, cfg);
  out.defs = Object.keys(D).length;
  // clause 1: same as a fresh context printing the same set once each in sorted order
  const canonMod = usePristine ? await pristine(base) : mod;
  const canonCtx = mkctx(SPC, canonMod, cfg);
  for (const n of [...printedOk].sort()) {
    try {
      canonMod.P[n].schemaWithContext(canonCtx);
    } catch (e) {
      viol("canonical-order-print-throws", { parser: n, msg: String(e && e.message) });
    }
  }
  const Dc = defsOf(canonCtx, cfg);
  if (canon(D) !== canon(Dc)) {
    const names = [...new Set([...Object.keys(D), ...Object.keys(Dc)])].sort().filter((k) => canon(D[k]) !== canon(Dc[k]));
    viol("export-depends-on-call-history", { differing: names.slice(0, 5), history: names.length ? D[names[0]] : null, canonical: names.length ? Dc[names[0]] : null });
  }
  // clause 2: every definition equals the one a fresh context produces when one parser is printed
  for (const n of [...printedOk].sort()) {
    const f = freshSingle(SPC, await refFor(n), cfg, n);
    for (const k of Object.keys(f.defs)) {
      if (canon(D[k]) !== canon(f.defs[k])) {
        viol("definition-differs-from-fresh-single-print", { definition: k, printed_alone: n, in_shared_context: D[k] ?? null, fresh: f.defs[k] });
        break;
      }
    }
  }
  // clause 4: every $ref resolves in the final export
  const valid = new Set(Object.keys(D).map((k) => cfg.refPathTemplate.replace("{name}", () => k)));
  const refs = [];
  for (const s of returned) collectRefs(s, refs);
  for (const k of Object.keys(D)) collectRefs(D[k], refs);
  for (const r of refs) {
    if (!valid.has(r)) {
      viol("dangling-ref", { ref: r, definitions: Object.keys(D).slice(0, 20) });
      break;
    }
  }
  out.refs = refs.length;
  if (out.violations.length) {
    const k = syntheticNameCollision(SPC, base, cfg);
    if (k) out.syntheticNameCollision = k;
  }
  out.sig = fnv32(canon(run));
  out.nontrivial = out.prints >= 2 && out.defs >= 1;
  return out;
}

// ------------------------------------------------------------------------------------------------
// C13: Hash256Writer write sequences
// ------------------------------------------------------------------------------------------------
let TAPPED = null;
let MIRROR = false; // byte stream reconstructed from the public API instead of tapped
function mirrorBytes(op) {
  const enc = (tag, s) => {
    const b = Buffer.from(new TE().encode(s));
    const l = Buffer.alloc(4);
    l.writeUInt32BE(b.length);
    return Buffer.concat([Buffer.from([tag]), l, b]);
  };
  if (op.op === "tag") return enc(1, op.v);
  if (op.op === "string") return enc(2, op.v);
  if (op.op === "number") {
    const v = numOf(op.v);
    return enc(3, Number.isNaN(v) ? "NaN" : Object.is(v, -0) ? "-0" : String(v));
  }
  if (op.op === "boolean") return Buffer.from([op.v ? 4 : 5]);
  if (op.op === "null") return Buffer.from([6]);
  return Buffer.alloc(0);
}
// The private byte sink was renamed: fall back to the documented framing, but only after it has
// been validated against the implementation on single-block inputs (no buffering involved).
function validateMirror(H) {
  const rng = new Rng(1, "mirror", 0);
  for (let i = 0; i < 200; i++) {
    const w = new H.Hash256Writer();
    const parts = [];
    let total = 0;
    for (let k = rng.range(0, 4); k > 0; k--) {
      const op = [{ op: "tag", v: "ab" }, { op: "string", v: strOfBytes(rng, rng.range(0, 8)) }, { op: "number", v: rng.pick([0, 1.5, "NaN", "-0"]) }, { op: "boolean", v: rng.chance(1, 2) }, { op: "null" }][rng.below(5)];
      const b = mirrorBytes(op);
      if (total + b.length > 50) break;
      total += b.length;
      parts.push(b);
      if (op.op === "tag") w.updateTag(op.v);
      else if (op.op === "string") w.updateString(op.v);
      else if (op.op === "number") w.updateNumber(numOf(op.v));
      else if (op.op === "boolean") w.updateBoolean(op.v);
      else w.updateNull();
    }
    if (w.digestHex() !== createHash("sha256").update(Buffer.concat(parts)).digest("hex")) return false;
  }
  return true;
}
function installTap(H) {
  const proto = H.Hash256Writer.prototype;
  if (typeof proto.updateBytes !== "function") {
    if (MIRROR) return true;
    if (!validateMirror(H)) return false;
    MIRROR = true;
    return true;
  }
  if (proto.__tapped) return true;
  const orig = proto.updateBytes;
  proto.updateBytes = function (data) {
    const r = orig.call(this, data);
    if (TAPPED && !MIRROR) TAPPED.push(Buffer.from(data)); // copy: callers may reuse the view
    return r;
  };
  proto.__tapped = true;
  // Is the wrapped method still THE byte sink? A writer may keep a method of that name and feed short tokens to
  // its buffer some other way (a benign rewrite did: encodeInto straight into a gathered buffer; the tap then saw
  // nothing and every digest looked wrong - a false alarm of this check). On 200 single-block inputs:
  //   digest = SHA-256(tapped bytes)            -> the tap is faithful, use it;
  //   else digest = SHA-256(documented framing) -> the sink moved, the framing mirror is the byte stream;
  //   else the tap shows exactly the documented framing -> the digest is wrong under both views: let the runs say so;
  //   else nothing tells what the writer was given: harness error, not a verdict.
  const rng = new Rng(1, "mirror", 0);
  let tapOk = true, mirrorOk = true, sameBytes = true;
  for (let i = 0; i < 200; i++) {
    const w = new H.Hash256Writer();
    const parts = [];
    let total = 0;
    const prev = TAPPED;
    TAPPED = [];
    for (let k = rng.range(0, 4); k > 0; k--) {
      const op = [{ op: "tag", v: "ab" }, { op: "string", v: strOfBytes(rng, rng.range(0, 8)) }, { op: "number", v: rng.pick([0, 1.5, "NaN", "-0"]) }, { op: "boolean", v: rng.chance(1, 2) }, { op: "null" }][rng.below(5)];
      const b = mirrorBytes(op);
      if (total + b.length > 50) break;
      total += b.length;
      parts.push(b);
      if (op.op === "tag") w.updateTag(op.v);
      else if (op.op === "string") w.updateString(op.v);
      else if (op.op === "number") w.updateNumber(numOf(op.v));
      else if (op.op === "boolean") w.updateBoolean(op.v);
      else w.updateNull();
    }
    const got = w.digestHex();
    const tapBuf = Buffer.concat(TAPPED);
    TAPPED = prev;
    const mirBuf = Buffer.concat(parts);
    if (createHash("sha256").update(tapBuf).digest("hex") !== got) tapOk = false;
    if (createHash("sha256").update(mirBuf).digest("hex") !== got) mirrorOk = false;
    if (!tapBuf.equals(mirBuf)) sameBytes = false;
  }
  if (tapOk) return true;
  if (mirrorOk) {
    MIRROR = true;
    return true;
  }
  return sameBytes;
}

const BOUNDS = [55, 56, 57, 63, 64, 65, 119, 120, 121, 127, 128, 129, 191, 192, 193, 255, 256, 257, 319, 320, 321, 447, 448, 449, 511, 512, 513];
const MULTI = ["é", "漢", "😀", "\ud800", "ß", "\u0000", "￿", "e\u0301", "\u2126", "\u212b", "\u1e9b\u0323"];
function utf8len(s) {
  return Buffer.byteLength(new TE().encode(s));
}
function strOfBytes(rng, L) {
  // a string whose UTF-8 encoding has exactly L bytes
  let s = "";
  let n = 0;
  const multi = rng.chance(1, 3);
  while (n < L) {
    if (multi && rng.chance(1, 4)) {
      const c = rng.pick(MULTI);
      const l = new TE().encode(c).length;
      if (n + l <= L) {
        s += c;
        n += l;
        continue;
      }
    }
    s += String.fromCharCode(97 + rng.below(26));
    n += 1;
  }
  return s;
}
const NUMS = [0, -0, 1, -1, 1.5, NaN, Infinity, -Infinity, 1e21, 1e-7, 123456789.125, Number.MAX_SAFE_INTEGER, Number.MIN_VALUE, 2 ** 31, -(2 ** 31), 0.1 + 0.2, 9, 10, 99, 100, 65535, 2 ** 32, 9999999999, 1e10, 10737418240, 21474836480, 1700000000000, 2 ** 53, 1e15, 123456789012];
const TE = globalThis.TextEncoder; // kept: one batch of workers runs without the global

// A long string (more than any plausible internal slice / scratch size) with two-unit characters,
// lone surrogates and three-byte characters sitting on and around multiples of powers of two of
// the UTF-16 index: the places where an encoder that works in slices would cut.
function longStr(rng) {
  const B = rng.pick([256, 512, 1024, 2048, 4096, 8192, 16384, 65536]);
  const blocks = rng.range(1, B >= 16384 ? 2 : 4);
  const units = B * blocks + rng.range(0, 40);
  const a = new Array(units).fill("a");
  for (let m = 1; m <= blocks; m++) {
    const at = m * B + rng.pick([-2, -1, -1, -1, 0, 1]);
    if (at < 0 || at + 1 >= units) continue;
    const kind = rng.below(4);
    if (kind < 2) {
      a[at] = "\ud83d";
      a[at + 1] = "\ude00";
    } else if (kind === 2) a[at] = rng.chance(1, 2) ? "\ud800" : "\udc00";
    else a[at] = "\u6f22";
  }
  for (let k = rng.below(4); k > 0; k--) a[rng.below(units)] = rng.pick(["\u00df", "\u6f22", "\uffff", "\u0000"]);
  return a.join("");
}

// short tokens that come back again and again in one process, between thousands of other strings
// (what a real hash256() walk writes: tags, property names); what a write contributes must not
// depend on what the process has hashed before
const VOCAB = ["object", "string", "number", "array", "beff-hash256-v1", "typeof", "ref", "anyOf", "é-token", "漢字", "", "a", "id", "kind"];
function genC13(index) {
  const rng = new Rng(ROOT, "C13", index);
  const n = rng.range(0, 40);
  const ops = [];
  let total = 0; // bytes fed so far (framing: 1 tag byte + 4 length bytes + payload)
  const steer = rng.chance(3, 4);
  for (let i = 0; i < n; i++) {
    const k = rng.below(10);
    if (k < 5) {
      let L;
      const targets = BOUNDS.filter((b) => b >= total + 5);
      if (steer && targets.length && rng.chance(3, 4)) L = rng.pick(targets.slice(0, 6)) - total - 5;
      else if (rng.chance(1, 10)) L = rng.range(100, 1500);
      else L = rng.range(0, 70);
      let v;
      if (rng.chance(1, 30)) {
        v = longStr(rng);
        L = Buffer.byteLength(v);
      } else if (rng.chance(1, 4)) {
        v = rng.pick(VOCAB);
        L = Buffer.byteLength(v);
      } else v = strOfBytes(rng, L);
      ops.push({ op: rng.chance(1, 4) ? "tag" : "string", v });
      total += 5 + L;
    } else if (k < 7) {
      const v = rng.pick(NUMS);
      ops.push({ op: "number", v: Number.isNaN(v) ? "NaN" : Object.is(v, -0) ? "-0" : v === Infinity ? "Infinity" : v === -Infinity ? "-Infinity" : v });
      total += 5 + String(v).length;
    } else if (k < 9) {
      ops.push({ op: "boolean", v: rng.chance(1, 2) });
      total += 1;
    } else {
      ops.push({ op: "null" });
      total += 1;
    }
  }
  ops.push({ op: "digest" });
  // a sibling sequence that differs in one small, meaningful way must give another digest
  const perturb = n > 0 ? { kind: rng.below(8), at: rng.below(n), salt: rng.below(26) } : null;
  // fault operations after the digest
  const faults = rng.range(0, 2);
  for (let i = 0; i < faults; i++) ops.push(rng.chance(1, 2) ? { op: "digest" } : { op: "string", v: "late" });
  return { ops, perturb };
}
// the perturbed sibling of a write sequence (null when the perturbation does not apply)
function sibling(ops, p) {
  if (!p) return null;
  const w = ops.slice(0, ops.findIndex((o) => o.op === "digest"));
  if (!w.length) return null;
  const i = p.at % w.length;
  const o = w[i];
  const out = w.map((x) => ({ ...x }));
  const ch = String.fromCharCode(97 + p.salt);
  switch (p.kind) {
    case 0: // change (or add) one character of a string / tag
      if (o.op !== "string" && o.op !== "tag") return null;
      {
        // prefer a character that is not ASCII (wherever it sits): another one of the same width
        // another spelling of the same text under Unicode normalisation (precomposed <-> combining mark, OHM
        // SIGN <-> GREEK OMEGA): different strings to a validator, so different digests
        if (p.salt % 3 === 1 && !/[\ud800-\udfff]/.test(o.v)) {
          const alt = o.v.normalize("NFC") !== o.v ? o.v.normalize("NFC") : o.v.normalize("NFD") !== o.v ? o.v.normalize("NFD") : null;
          if (alt !== null) {
            out[i].v = alt;
            break;
          }
        }
        const special = [];
        for (let k = 0; k < o.v.length && special.length < 64; k++) if (o.v.charCodeAt(k) > 127) special.push(k);
        if (special.length && p.salt % 2 === 0) {
          const k = special[p.salt % special.length];
          const c = o.v.charCodeAt(k);
          const hi = c >= 0xd800 && c <= 0xdbff, lo = c >= 0xdc00 && c <= 0xdfff;
          let rep = null;
          if (hi && k + 1 < o.v.length && o.v.charCodeAt(k + 1) >= 0xdc00 && o.v.charCodeAt(k + 1) <= 0xdfff) rep = String.fromCharCode(c === 0xd83d ? 0xd83e : 0xd83d);
          else if (lo && k > 0 && o.v.charCodeAt(k - 1) >= 0xd800 && o.v.charCodeAt(k - 1) <= 0xdbff) rep = String.fromCharCode(c === 0xde00 ? 0xde01 : 0xde00);
          else if (!hi && !lo) rep = String.fromCharCode(c === 0x6f22 ? 0x6f23 : 0x6f22);
          if (rep == null) return null; // lone surrogates all encode alike, by definition of UTF-8 encoding
          out[i].v = o.v.slice(0, k) + rep + o.v.slice(k + 1);
        } else out[i].v = o.v.length ? (o.v[0] === ch ? "#" : ch) + o.v.slice(1) : ch;
      }
      if (Buffer.from(out[i].v).equals(Buffer.from(o.v))) return null;
      break;
    case 1:
      if (o.op !== "boolean") return null;
      out[i].v = !o.v;
      break;
    case 2:
      if (o.op !== "number") return null;
      {
        // a number close to the original: one more, twice as much, the same digits behind another
        // leading digit, the other sign, a tenth
        const v = numOf(o.v);
        if (!Number.isFinite(v)) out[i].v = 7;
        else {
          const mag = v === 0 ? 1 : 10 ** Math.floor(Math.log10(Math.abs(v)));
          const cand = [v + 1, v * 2, v + mag, -v, v / 10, v + 10 * mag, v - 1][p.salt % 7];
          if (!Number.isFinite(cand) || Object.is(cand, v) || String(cand) === String(v)) return null;
          out[i].v = Object.is(cand, -0) ? "-0" : cand;
        }
      }
      break;
    case 3:
      if (o.op !== "null") return null;
      out[i] = { op: "boolean", v: false };
      break;
    case 4:
      if (o.op === "string") out[i].op = "tag";
      else if (o.op === "tag") out[i].op = "string";
      else return null;
      break;
    case 5: // one write split in two
      if ((o.op !== "string" && o.op !== "tag") || o.v.length < 2 || /[\ud800-\udfff]/.test(o.v)) return null;
      out.splice(i, 1, { op: o.op, v: o.v.slice(0, 1) }, { op: o.op, v: o.v.slice(1) });
      break;
    case 6: // one write dropped
      out.splice(i, 1);
      break;
    default: // two adjacent, different writes swapped
      if (i + 1 >= w.length || canon(w[i]) === canon(w[i + 1])) return null;
      [out[i], out[i + 1]] = [out[i + 1], out[i]];
  }
  return out;
}
function numOf(v) {
  if (v === "NaN") return NaN;
  if (v === "-0") return -0;
  if (v === "Infinity") return Infinity;
  if (v === "-Infinity") return -Infinity;
  return v;
}
const OP_BYTES = new Map(); // vocabulary write -> hex of the bytes it contributed the first time in this process
function execC13(H, run) {
  const out = { violations: [], writes: 0, bytes: 0 };
  const viol = (cls, detail) => {
    if (!out.violations.some((v) => v.class === cls)) out.violations.push({ property: "C13", class: cls, detail });
  };
  const w = new H.Hash256Writer();
  TAPPED = [];
  let digest = null;
  let streamAtDigest = null;
  let tappedAtDigest = 0;
  const sha = (bufs) => createHash("sha256").update(Buffer.concat(bufs)).digest("hex");
  run.ops.forEach((op, i) => {
    const after = digest !== null;
    const before = TAPPED.length;
    try {
      if (op.op === "tag") w.updateTag(op.v);
      else if (op.op === "string") w.updateString(op.v);
      else if (op.op === "number") w.updateNumber(numOf(op.v));
      else if (op.op === "boolean") w.updateBoolean(op.v);
      else if (op.op === "null") w.updateNull();
      else if (op.op === "digest") {
        const d = w.digestHex();
        if (!after) {
          digest = d;
          streamAtDigest = Buffer.concat(TAPPED);
          tappedAtDigest = TAPPED.length;
        } else if (!MIRROR) {
          // The statement does not say what a writer does after its digest was taken. Refusing
          // (throwing) is fine, so is answering again with the same digest, so is going on as a
          // running hash, so is starting over. What is not fine is an answer that is the SHA-256
          // of nothing the caller wrote.
          const ok = d === digest || d === sha(TAPPED) || d === sha(TAPPED.slice(tappedAtDigest));
          if (!ok) viol("digest-after-digest-is-not-sha256-of-what-was-written", { op_index: i, value: d, first: digest });
          tappedAtDigest = TAPPED.length;
        }
      }
      if (op.op !== "digest") {
        out.writes++;
        if (MIRROR && TAPPED) TAPPED.push(mirrorBytes(op));
        else if ((op.op === "tag" || op.op === "string") && VOCAB.includes(op.v)) {
          const key = op.op + ":" + op.v;
          const hex = Buffer.concat(TAPPED.slice(before)).toString("hex");
          const first = OP_BYTES.get(key);
          if (first === undefined) OP_BYTES.set(key, hex);
          else if (first !== hex) viol("same-write-contributes-other-bytes-than-earlier-in-the-process", { op_index: i, op, first, now: hex });
        }
      }
    } catch (e) {
      if (!after) viol("write-or-digest-threw-before-digest", { op_index: i, op, msg: String(e && e.message) });
    }
  });
  const stream = streamAtDigest ?? Buffer.concat(TAPPED);
  TAPPED = null;
  out.bytes = stream.length;
  if (digest !== null) {
    const want = createHash("sha256").update(stream).digest("hex");
    if (digest !== want) viol("digest-is-not-sha256-of-the-written-bytes", { got: digest, want, bytes: stream.length, mod64: stream.length % 64 });
    out.crossedBlock = stream.length >= 64;
    out.extraPadBlock = stream.length % 64 >= 56;
  }
  // distinct write sequences must give distinct digests (the encoding is injective on writes):
  // catches writes that are silently not hashed and framing that lets two sequences collide
  const sib = digest !== null ? sibling(run.ops, run.perturb) : null;
  if (sib) {
    const w2 = new H.Hash256Writer();
    try {
      for (const op of sib) {
        if (op.op === "tag") w2.updateTag(op.v);
        else if (op.op === "string") w2.updateString(op.v);
        else if (op.op === "number") w2.updateNumber(numOf(op.v));
        else if (op.op === "boolean") w2.updateBoolean(op.v);
        else if (op.op === "null") w2.updateNull();
      }
      const d2 = w2.digestHex();
      out.siblings = 1;
      if (d2 === digest) viol("distinct-write-sequences-same-digest", { perturbation: run.perturb, sibling: sib.slice(0, 6), digest });
    } catch (e) {
      viol("write-or-digest-threw-before-digest", { sibling: true, msg: String(e && e.message) });
    }
  }
  out.digest = digest;
  out.cls = `${stream.length % 64}/${Math.min(out.writes, 41)}`;
  out.nontrivial = stream.length > 0;
  return out;
}

// the bit-length high word and the counters behind it: very long streams through one writer, made of many
// writes (514 x 1 MiB: more than 2^29 bytes) or of a few small writes and ONE very long one (2^28 bytes and
// more in a single token: what `size << 3` or a 32-bit byte counter get wrong)
function bigC13(H, plan = { chunks: 514, chunk_bytes: 1 << 20 }) {
  const w = new H.Hash256Writer();
  const ref = createHash("sha256");
  // tap straight into the reference hash instead of buffering half a gigabyte
  const prev = TAPPED;
  TAPPED = { push: (b) => ref.update(b) };
  let bytes = 0;
  const put = (str) => {
    w.updateString(str);
    if (MIRROR) ref.update(mirrorBytes({ op: "string", v: str }));
    bytes += 5 + str.length;
  };
  let got;
  try {
    for (const lead of plan.lead || []) put(lead);
    const chunk = "x".repeat(plan.chunk_bytes);
    for (let i = 0; i < plan.chunks; i++) put(chunk);
    for (const tail of plan.tail || []) put(tail);
    got = w.digestHex();
  } catch (e) {
    TAPPED = prev;
    // an engine that cannot hold the string is not the writer's fault
    return { ok: true, skipped: String(e && e.message).slice(0, 120), bytes };
  }
  TAPPED = prev;
  const want = ref.digest("hex");
  return { ok: got === want, got, want, bytes, plan };
}
const BIG_PLANS = {
  quick: [{ lead: ["ab"], chunks: 1, chunk_bytes: 2 ** 28, tail: ["c"] }],
  thorough: [
    { chunks: 514, chunk_bytes: 1 << 20 },
    { lead: ["ab"], chunks: 1, chunk_bytes: 2 ** 28, tail: ["c"] },
    { lead: [], chunks: 1, chunk_bytes: 2 ** 29 - 64, tail: ["tail"] },
    { lead: ["x".repeat(61)], chunks: 2, chunk_bytes: 2 ** 28 + 3 },
  ],
};

// ------------------------------------------------------------------------------------------------
// C04 Node leg: every emitted module loads and builds a parser for every requested name
// ------------------------------------------------------------------------------------------------
// The working tree's own bundle-to-disk.ts (type-stripped; its generated/bundle is rebuilt from
// bundled-code/ the way script/build.js does it): execProject with a bundler that hands back the
// code the compiler emitted. null if the file was refactored beyond what the builder understands.
async function realExecProject(work) {
  try {
    const { buildTsNode } = await import("./hostlib.mjs");
    buildTsNode(work);
    // (the directory lies below a package.json that says "type": "module")
    fs.writeFileSync(path.join(work, "package.json"), '{"type":"commonjs"}');
    const REPO = process.env.VERIF_REPO || "/repo";
    const del = (code) => code.replace(/\/\/.*/g, "").replace(/\/\*.*\*\//g, "");
    const dir = path.join(REPO, "packages/beff-wasm/bundled-code");
    const bundle = Object.fromEntries(fs.readdirSync(dir).filter((f) => f.endsWith(".js") || f.endsWith("d.ts")).map((f) => [f, del(fs.readFileSync(path.join(dir, f), "utf8"))]));
    fs.writeFileSync(path.join(work, "ts-node/generated/bundle.js"), "module.exports.default = " + JSON.stringify(bundle) + ";\n");
    const { createRequire } = await import("node:module");
    const require = createRequire(path.join(work, "ts-node/x.js"));
    globalThis.__watchers = [];
    globalThis.__wasm_calls = [];
    const B = require("./bundle-to-disk.js");
    return typeof B.execProject === "function" ? B.execProject : null;
  } catch {
    return null;
  }
}
// one module wrapped by the real execProject as `flavour`; returns the text of gen/parser.js
function wrapWithRealHost(execProject, work, it, code, flavour) {
  const proj = path.join(work, "proj_" + flavour);
  fs.rmSync(proj, { recursive: true, force: true });
  fs.mkdirSync(proj, { recursive: true });
  const settings = { stringFormats: (it.string_formats || []).map((name) => ({ name })), numberFormats: (it.number_formats || []).map((name) => ({ name })) };
  const res = execProject({ bundle_v2: () => code }, path.join(proj, "bff.json"), { parser: "entry.ts", outputDir: "gen", module: flavour, settings }, false);
  if (res !== "ok") throw new Error("execProject answered " + res);
  return fs.readFileSync(path.join(proj, "gen/parser.js"), "utf8");
}
async function c04node(listFile) {
  const items = JSON.parse(fs.readFileSync(listFile, "utf8"));
  const results = [];
  const realWork = path.join(path.dirname(listFile), "realhost_" + process.pid);
  const execProject = items.some((it) => it.raw) ? await realExecProject(realWork) : null;
  const runtimeNs = {};
  if (execProject) for (const n of ["codegen-v2"]) runtimeNs["@beff/client/" + n] = await rt(n);
  // watchdog: a module whose load / buildParsers / validate never returns. The main thread may be
  // stuck in synchronous code, so a second thread watches a shared progress counter and the
  // process CPU time; it reports the module that was being checked and ends the process.
  const sab = new SharedArrayBuffer(8);
  const progress = new Int32Array(sab);
  const wcode = `
    const { workerData } = require("node:worker_threads");
    const fs = require("node:fs");
    const p = new Int32Array(workerData.sab);
    let last = -1, cpuAt = process.cpuUsage();
    setInterval(() => {
      const cur = Atomics.load(p, 0);
      if (cur !== last) { last = cur; cpuAt = process.cpuUsage(); return; }
      const d = process.cpuUsage(cpuAt);
      if ((d.user + d.system) / 1e6 > 20) {
        fs.writeSync(1, JSON.stringify({ stalled_at: cur }) + "\\n");
        process.kill(process.pid, "SIGKILL");
      }
    }, 500);`;
  const wd = new WorkerThread(wcode, { eval: true, workerData: { sab } });
  wd.unref();
  let idx = 0;
  for (const it of items) {
    Atomics.store(progress, 0, idx++);
    const r = { hash: it.hash, ok: true };
    try {
      let file = it.file;
      let cjsP = null;
      const sf = Object.fromEntries((it.string_formats || []).map((n) => [n, () => true]));
      const nf = Object.fromEntries((it.number_formats || []).map((n) => [n, () => true]));
      if (it.raw && execProject) {
        // what the real host writes to disk, in both module flavours
        const code = fs.readFileSync(it.raw, "utf8");
        const esm = wrapWithRealHost(execProject, realWork, it, code, "esm");
        file = it.file.replace(/\.mjs$/, ".real.mjs");
        fs.writeFileSync(file, esm);
        r.real_host = true;
        const cjs = wrapWithRealHost(execProject, realWork, it, code, "cjs");
        try {
          const module = { exports: {} };
          const req = (spec) => {
            if (runtimeNs[spec]) return runtimeNs[spec];
            throw new Error("Cannot find module '" + spec + "'");
          };
          new Function("require", "exports", "module", cjs)(req, module.exports, module);
          cjsP = module.exports.default.buildParsers({ stringFormats: sf, numberFormats: nf });
        } catch (e) {
          r.ok = false;
          r.class = "module-does-not-load";
          r.detail = { flavour: "cjs (written by the working tree's bundle-to-disk.ts)", message: String(e && e.message).slice(0, 300) };
          fs.writeSync(1, JSON.stringify(r) + "\n");
          continue;
        }
      }
      const m = await import(pathToFileURL(file).href);
      const P = m.default.buildParsers({ stringFormats: sf, numberFormats: nf });
      if (cjsP && Object.keys(cjsP).sort().join("\u0000") !== Object.keys(P).sort().join("\u0000")) {
        r.ok = false;
        r.class = "module-misses-requested-parser";
        r.detail = { flavour: "cjs", missing: Object.keys(P).filter((k) => !(k in cjsP)), have: Object.keys(cjsP).slice(0, 20) };
      }
      const have = new Set(Object.keys(P));
      if (it.expected_keys) {
        const missing = it.expected_keys.filter((k) => !have.has(k));
        if (missing.length) {
          r.ok = false;
          r.class = "module-misses-requested-parser";
          r.detail = { missing, have: [...have].slice(0, 20) };
        }
      }
      if (r.ok) {
        for (const k of have) {
          const p = P[k];
          if (!p || typeof p.validate !== "function" || typeof p.parse !== "function") {
            r.ok = false;
            r.class = "module-parser-is-not-a-parser";
            r.detail = { key: k };
            break;
          }
          // the parser must be usable: validate returns a boolean on plain values, and the other
          // entry points either work or fail with one of the runtime's own errors - never with a
          // TypeError / ReferenceError / SyntaxError from the emitted tables
          const probes = [null, undefined, {}, [], "x", "", 0, -0, 1.5, true, { a: 1, kind: "k0", f0: "lit" }, [1, "a"], new Date(0)];
          let bad = null;
          for (const val of probes) {
            try {
              const v = p.validate(val);
              if (typeof v !== "boolean") bad = { op: "validate", returned: typeof v };
              const sp = p.safeParse(val);
              if (!sp || typeof sp.success !== "boolean" || sp.success !== v) bad = { op: "safeParse", validate: v, safeParse: sp && sp.success };
            } catch (e) {
              bad = { op: "validate/safeParse", error: String(e && e.name) + ": " + String(e && e.message).slice(0, 200) };
            }
            if (bad) break;
          }
          const own = (e) => e instanceof Error && e.constructor === Error;
          if (!bad) {
            // parse() legitimately throws a plain Error on an invalid value
            try {
              p.parse({});
            } catch (e) {
              if (!own(e)) bad = { op: "parse", error: String(e && e.name) + ": " + String(e && e.message).slice(0, 200) };
            }
          }
          if (bad) {
            r.ok = false;
            r.class = "module-parser-fails-when-used";
            r.detail = { key: k, ...bad };
            break;
          }
        }
      }
    } catch (e) {
      r.ok = false;
      r.class = "module-does-not-load";
      r.detail = { message: String(e && e.message).slice(0, 300) };
    }
    fs.writeSync(1, JSON.stringify(r) + "\n");
  }
  fs.writeSync(1, JSON.stringify({ done: true }) + "\n");
  process.exit(0);
}

// ------------------------------------------------------------------------------------------------
// worker / coordinator
// ------------------------------------------------------------------------------------------------
// C13, clause "terminates on recursive types" and independence of a digest from what was hashed
// before on the same objects: every parser of a compiled module is hashed, another parser is
// hashed in between, it is hashed again, and once more on a brand-new module instance.
// "Terminates" is decided with a step budget instead of a clock: every entry of a reference to a
// named type during one hash256() / hash() call is a step.  The walk is linear in the size of the
// type for everything the compiler emits from ordinary programs (the largest count over the
// module set is reported in the evidence); a call that needs more than STEP_BUDGET steps is
// reported as hash256-step-budget-exceeded without waiting for it.
const STEP_BUDGET = Number(process.env.JSIM_STEP_BUDGET || 100000);
class StepBudgetExceeded extends Error {}
let STEPS = 0;
let STEP_TAP = false;
async function installStepTap() {
  if (STEP_TAP) return true;
  const C = await rt("codegen-v2");
  const proto = C.BaseRefRuntype && C.BaseRefRuntype.prototype;
  if (!proto || typeof proto.hash256 !== "function" || typeof proto.hash !== "function") return false;
  for (const k of ["hash256", "hash"]) {
    const orig = proto[k];
    proto[k] = function (...a) {
      if (++STEPS > STEP_BUDGET) throw new StepBudgetExceeded(k);
      return orig.apply(this, a);
    };
  }
  STEP_TAP = true;
  return true;
}
const isRef = (n) => n && typeof n.refName === "string" && typeof n.getNamedRuntypes === "function";
function refsBelow(node, out, depth = 0) {
  if (!node || depth > 200) return out;
  if (isRef(node)) {
    if (Array.isArray(out)) out.push(node.refName);
    else out.add(node.refName);
    return out;
  }
  const ch = typeof node.describeChildren === "function" ? node.describeChildren() : [];
  for (const c of ch) refsBelow(c, out, depth + 1);
  return out;
}
// Number of simple paths through the graph of named types (a multigraph: one edge per occurrence of
// a reference), starting from a parser (capped): the input feature that identifies known finding
// KF-C13-1.
function simplePathsFrom(parser, cap) {
  const root = parser && parser._runtype;
  if (!root) return 0;
  let named = null;
  const adj = new Map();
  const edges = (name) => {
    let e = adj.get(name);
    if (!e) {
      // every occurrence of a reference is an edge (the walks enter a named type once per occurrence)
      e = named && named[name] ? refsBelow(named[name], []).sort() : [];
      adj.set(name, e);
    }
    return e;
  };
  const findNamed = (n, depth = 0) => {
    if (!n || depth > 200 || named) return;
    if (isRef(n)) {
      named = n.getNamedRuntypes();
      return;
    }
    for (const c of typeof n.describeChildren === "function" ? n.describeChildren() : []) findNamed(c, depth + 1);
  };
  findNamed(root);
  if (!named) return 0;
  let count = 0;
  const active = new Set();
  const walk = (name) => {
    if (count > cap || active.has(name)) return;
    count++;
    active.add(name);
    for (const t of edges(name)) walk(t);
    active.delete(name);
  };
  for (const r of refsBelow(root, []).sort()) walk(r);
  return count;
}

// The input feature of KF-C13-1 for one parser.  Computed from the runtype objects; should the
// introspection method it needs disappear in a refactoring, the three stress inputs that are known
// to have the feature (generated with 9, 11 and 14 mutually recursive types) are recognised by id.
const KNOWN_DENSE = { stress_dense_9_0: 109601, stress_dense_11_2: 9864101, stress_dense_14_0: 16926797486 };
function denseFeature(moduleId, parser) {
  let paths = 0;
  try {
    paths = simplePathsFrom(parser, 200000);
  } catch {
    paths = 0;
  }
  const introspectable = parser && parser._runtype && typeof parser._runtype.describeChildren === "function";
  if (!introspectable && KNOWN_DENSE[moduleId]) return KNOWN_DENSE[moduleId];
  return paths;
}

// the batches in other process environments only need the digests
const LIGHT = !!process.env.JSIM_STABILITY_LIGHT;
const USE_PROBES = [null, undefined, "", "x", "a", "b", "lit", 0, 1, 1.5, 42, -1, true, false, [], [1], ["a"], [1, "a"], ["a", 1], {}, { a: 1 }, { kind: "k0" }, { kind: "k1", n1: 1 }, { kind: 1 }, { f0: "v0" }, { f0: "v1", f1: "x" }, { value: 1 }, { v: "s" }, new Date(0), 10n, new Map([["a", 1]]), new Set(["a"]), new Uint8Array(2), new Float64Array(1)];
// a type nested so deeply that walking it exhausts the stack (built with the b API)
let DEEP = null;
async function deepParser() {
  try {
    const { b } = await rt("b");
    let t = b.Object({ leaf: b.String(), n: b.Number() });
    for (let i = 0; i < 60000; i++) t = i % 2 ? b.Array(t) : b.Object({ a: b.String(), inner: t, z: b.Boolean() });
    DEEP = t;
  } catch {
    DEEP = null;
  }
}
async function execStability(mods, run) {
  if (DEEP === null && !execStability.triedDeep) {
    execStability.triedDeep = true;
    await deepParser();
  }
  const base = mods.find((m) => m.id === run.module);
  const out = { violations: [], hashed: 0, maxSteps: 0, stepTap: await installStepTap() };
  if (!base) return out;
  const viol = (cls, detail) => {
    if (!out.violations.some((v) => v.class === cls)) out.violations.push({ property: "C13", class: cls, detail });
  };
  // the formats of this module as the first build registered them (bare functions) ...
  await pristine(base, false);
  let fresh = null;
  const names = base.names;
  const recorded = [];
  const cpu0 = process.cpuUsage();
  for (let i = 0; i < names.length; i++) {
    // a module whose types unfold into tens of thousands of steps per call (each call within the
    // step budget) is not hashed parser after parser for minutes: a few seconds of it are enough
    const used = process.cpuUsage(cpu0);
    if (i > 0 && (used.user + used.system) / 1e6 > 4) {
      out.cutShort = names.length - i;
      break;
    }
    if (run.heartbeat) run.heartbeat();
    const P = base.P[names[i]];
    let a, b, c, h32a, h32b, h32c;
    const step = (f) => {
      STEPS = 0;
      try {
        return f();
      } finally {
        if (STEPS > out.maxSteps) out.maxSteps = STEPS;
      }
    };
    try {
      a = step(() => P.hash256());
      h32a = step(() => P.hash());
      // the fault: a hash256() / hash() call that dies half-way (stack exhausted on a very deep
      // type) must leave nothing behind that later calls can see
      if (i === 0 && DEEP) {
        for (const f of ["hash256", "hash"]) {
          try {
            STEPS = -1e9;
            DEEP[f]();
          } catch (e) {
            if (e instanceof RangeError) out.deepThrows = (out.deepThrows || 0) + 1;
          }
        }
      }
      // ... and the same fault INSIDE the walk of this very parser: the call is made from the bottom of the stack and
      // again from every frame above it, so that the walk is cut off by stack exhaustion at one point after another
      // (inside named types that are open at that moment) until there is room for it to finish; whatever such a walk
      // left open must not show in any later digest (seeded change c13j-2: one module-level table of open named
      // types instead of one per call)
      if (i < 2) {
        for (const f of ["hash256", "hash"]) {
          STEPS = -1e9;
          const n = interruptedWalks(() => P[f]());
          out.interruptedWalks = (out.interruptedWalks || 0) + n;
        }
        STEPS = 0;
      }
      step(() => base.P[names[(i + 1) % names.length]].hash256());
      step(() => base.P[names[(i + 1) % names.length]].hash());
      // other use of the same objects in between: what a process has validated, parsed, printed
      // or described must not show in a digest
      for (const q of LIGHT ? [] : [P, base.P[names[(i + 1) % names.length]]]) {
        for (const val of USE_PROBES) {
          for (const f of ["validate", "safeParse"]) {
            try {
              q[f](val);
              out.usesInBetween = (out.usesInBetween || 0) + 1;
            } catch {}
          }
        }
        for (const f of ["describe", "schema"]) {
          try {
            q[f]();
          } catch {}
        }
      }
      // ... and, from here on, as another build of the same module in this process registered
      // them: with the published format names
      if (!fresh) fresh = await pristine(base, true);
      b = step(() => P.hash256());
      h32b = step(() => P.hash());
      c = step(() => fresh.P[names[i]].hash256());
      h32c = step(() => fresh.P[names[i]].hash());
    } catch (e) {
      if (e instanceof StepBudgetExceeded) {
        const paths = denseFeature(base.id, P);
        viol(paths >= 100000 ? "hash-step-budget-exceeded:simple-paths-through-named-types>=100000" : "hash-step-budget-exceeded", { module: base.id, parser: names[i], call: e.message, budget: STEP_BUDGET, simple_paths_through_named_types: paths });
        out.budgetExceeded = (out.budgetExceeded || 0) + 1;
        // the other parsers of such a module reach the same types
        break;
      }
      viol("hash256-throws", { module: base.id, parser: names[i], msg: String(e && e.message).slice(0, 200) });
      continue;
    }
    out.hashed++;
    if (typeof a !== "string" || !/^[0-9a-f]{64}$/.test(a)) viol("hash256-is-not-a-sha256-hex-string", { module: base.id, parser: names[i], value: a });
    if (a !== b || h32a !== h32b) viol("hash-depends-on-earlier-calls", { module: base.id, parser: names[i], first: a, again: b });
    if (a !== c || h32a !== h32c) viol("hash-differs-on-a-fresh-module-instance", { module: base.id, parser: names[i], first: a, fresh: c, first32: h32a, fresh32: h32c });
    recorded.push({ name: names[i], a, h32a });
  }
  out.digests = Object.fromEntries(recorded.map((r) => [r.name, r.a + ":" + r.h32a]));
  out.moduleId = base.id;
  // once more on another brand-new instance, in the opposite order: what a parser's hash is must
  // not depend on which parser of the module was hashed first
  if (recorded.length >= 2 && !out.budgetExceeded) {
    const other = await pristine(base, true);
    for (const r of [...recorded].reverse()) {
      try {
        STEPS = 0;
        const h32 = other.P[r.name].hash();
        STEPS = 0;
        const h = other.P[r.name].hash256();
        if (h !== r.a || h32 !== r.h32a) {
          viol("hash-depends-on-the-order-parsers-are-hashed-in", { module: base.id, parser: r.name, forward: [r.a, r.h32a], backward: [h, h32] });
          break;
        }
      } catch (e) {
        break;
      }
    }
  }
  return out;
}

// A worker that outlives its parent while it spins in an endless loop of the code under test would
// burn a CPU for ever; its own event loop never runs again, so the check lives in a second thread.
function dieWithParent() {
  const code = `const p = process.ppid; setInterval(() => { if (process.ppid !== p) process.kill(process.pid, "SIGKILL"); }, 1000);`;
  const w = new WorkerThread(code, { eval: true });
  w.unref();
}

let CLASS_CALLS = {};
async function workerMain(prop) {
  dieWithParent();
  // an engine that lacks some globals (old Hermes / React Native have no TextEncoder): they are
  // taken away before the runtime is loaded
  for (const g of (process.env.JSIM_DELETE_GLOBALS || "").split(",").filter(Boolean)) delete globalThis[g];
  try {
    let ctxs = {};
    if (prop === "C13S") {
      STRESS_TOO = true;
      ctxs.mods = await loadModules();
      // stress modules first: they are part of the quick tier's first 200 modules
      // then the modules about the process environment, then every third module of the rest first
      // (the index lists the corpus before the seeded synthetic projects)
      const key = (m, i) => (m.id.startsWith("stress_") ? 0 : m.id.startsWith("env_") ? 1 : 2 + (i % 3));
      ctxs.mods = ctxs.mods.map((m, i) => [key(m, i), i, m]).sort((a, b) => a[0] - b[0] || a[1] - b[1]).map((x) => x[2]);
      process.on("message", async (m) => {
        if (m.done) process.exit(0);
        try {
          const run = m.run ?? { module: ctxs.mods[m.index % ctxs.mods.length].id };
          process.send({ start: m.index, run });
          // the watchdog is about one call that never returns: it is re-armed before every parser
          const result = await execStability(ctxs.mods, { ...run, heartbeat: () => process.send({ start: m.index, run }) });
          if (result.violations.length) result.run = run;
          process.send({ index: m.index, result });
        } catch (e) {
          process.send({ fatal: "worker: " + (e && e.stack) });
        }
      });
      process.send({ ready: true });
      return;
    }
    if (prop === "C16") {
      const C16RT = await rt("codegen-v2");
      ctxs.SPC = C16RT.SchemaPrintingContext;
      // reach probe: schema() calls per runtype class (a class stuck at zero is a gap in the workload)
      for (const [name, cls] of Object.entries(C16RT)) {
        if (typeof cls !== "function" || !cls.prototype || !name.endsWith("Runtype") || !Object.prototype.hasOwnProperty.call(cls.prototype, "schema")) continue;
        const orig = cls.prototype.schema;
        cls.prototype.schema = function (...a) {
          CLASS_CALLS[name] = (CLASS_CALLS[name] || 0) + 1;
          return orig.apply(this, a);
        };
      }
      ctxs.mods = await loadModules();
      if (!ctxs.mods.length) throw new Error("no module could be loaded");
    } else {
      ctxs.H = await rt("hash");
      if (!installTap(ctxs.H)) throw new Error("Hash256Writer.prototype.updateBytes not found and the documented framing does not validate on single-block inputs: cannot obtain the byte stream");
    }
    process.on("message", async (m) => {
      if (m.done) process.exit(0);
      try {
        let result;
        if (prop === "C16") {
          const run = m.run ?? genC16(ctxs.mods, ctxs.SPC, m.index);
          process.send({ start: m.index, run });
          result = await execC16(ctxs.mods, ctxs.SPC, run);
          result.classCalls = CLASS_CALLS;
          CLASS_CALLS = {};
          if (result.violations.length || m.index < 3) result.run = run;
          if (PRISTINE_N >= PRISTINE_CAP) {
            process.send({ index: m.index, result, recycle: true });
            return;
          }
        } else {
          const run = m.run ?? genC13(m.index);
          process.send({ start: m.index, run });
          result = execC13(ctxs.H, run);
          if (result.violations.length || m.index < 3) result.run = run;
        }
        process.send({ index: m.index, result });
      } catch (e) {
        process.send({ fatal: "worker: " + (e && e.stack) });
      }
    });
    process.send({ ready: true });
  } catch (e) {
    process.send({ fatal: String(e && e.stack) });
  }
}

function loadFindings() {
  try {
    return JSON.parse(fs.readFileSync(path.join(HOME, "known_findings.json"), "utf8"));
  } catch {
    return [];
  }
}
function corpusProject(id) {
  try {
    return JSON.parse(fs.readFileSync(path.join(JSRT, "mods", id + ".project.json"), "utf8"));
  } catch {}
  const c = JSON.parse(fs.readFileSync(path.join(HOME, "corpus/corpus.json"), "utf8"));
  return c.find((p) => p.id === id);
}

async function minimize(prop, run, cls, ctxs) {
  const exec = async (r) => (prop === "C16" ? await execC16(ctxs.mods, ctxs.SPC, r) : execC13(ctxs.H, r));
  const still = async (r) => (await exec(r)).violations.some((v) => v.class === cls);
  let best = run;
  let i = 0;
  while (i < best.ops.length) {
    const c = { ...best, ops: best.ops.filter((_, j) => j !== i) };
    if (c.ops.length && (await still(c))) best = c;
    else i++;
  }
  if (prop === "C16") {
    for (const k of Object.keys(best.ctx.overrides || {})) {
      const ov = { ...best.ctx.overrides };
      delete ov[k];
      const c = { ...best, ctx: { ...best.ctx, overrides: ov } };
      if (await still(c)) best = c;
    }
    for (const t of TEMPLATES) {
      const c = { ...best, ctx: { ...best.ctx, refPathTemplate: t, definitionContainerKey: null } };
      if (await still(c)) {
        best = c;
        break;
      }
    }
  } else {
    // collapse to one ASCII string with the same total length, then peel off whole blocks
    const total = (await exec(best)).bytes;
    if (total >= 5) {
      let L = total - 5;
      const mk = (n) => ({ ...best, ops: [{ op: "string", v: "a".repeat(n) }, { op: "digest" }] });
      if (await still(mk(L))) {
        while (L >= 64 && (await still(mk(L - 64)))) L -= 64;
        best = mk(L);
      }
    }
    // shrink strings
    for (let j = 0; j < best.ops.length; j++) {
      const op = best.ops[j];
      if (typeof op.v === "string" && op.v.length > 1 && (op.op === "string" || op.op === "tag")) {
        for (const cut of [0, 1, Math.floor(op.v.length / 2)]) {
          const c = { ...best, ops: best.ops.map((o, k) => (k === j ? { ...o, v: o.v.slice(0, cut) } : o)) };
          if (await still(c)) {
            best = c;
            break;
          }
        }
      }
    }
  }
  return best;
}

const REG_BASE = 1e12;
async function main() {
  const [cmd, a1, a2] = process.argv.slice(2);
  if (cmd === "worker") return workerMain(a1);
  if (cmd === "c04node") return c04node(a1);
  if (cmd === "selftest") {
    const H = await rt("hash");
    if (!installTap(H)) {
      console.log("HARNESS-ERROR: cannot tap Hash256Writer.prototype.updateBytes");
      process.exit(2);
    }
    const r = execC13(H, { ops: [{ op: "string", v: "abc" }, { op: "digest" }] });
    const mods = await loadModules();
    console.log(`jsim selftest: stripped runtime loads, ${mods.length} compiled modules load, tap ok (${r.bytes} bytes, violations ${r.violations.length})`);
    process.exit(mods.length > 0 && r.violations.length === 0 ? 0 : 2);
  }
  if (cmd === "replay") {
    const run = JSON.parse(fs.readFileSync(a1, "utf8"));
    const prop = run.property;
    const ctxs = {};
    if (prop === "C16") {
      ctxs.SPC = (await rt("codegen-v2")).SchemaPrintingContext;
      ctxs.mods = await loadModules();
    } else {
      ctxs.H = await rt("hash");
      installTap(ctxs.H);
    }
    if (run.ops && run.ops[0] && run.ops[0].op === "hash256-stability") {
      const r = await alone(SELF, ["C13S"], { module: run.module }, 30000);
      let hit = r.stalled ? "hash256-never-returns" : r.result && r.result.violations.find((v) => v.class === run.violation_class) ? run.violation_class : null;
      if (!hit && run.env && r.result) {
        // the same module hashed by a process started in the recorded environment
        const r2 = await alone(SELF, ["C13S"], { module: run.module }, 30000, run.env);
        const here = r.result.digests || {};
        const there = (r2.result && r2.result.digests) || {};
        if (Object.keys(here).some((k) => there[k] !== undefined && there[k] !== here[k])) hit = "hash-depends-on-the-process-environment";
      }
      if (hit) {
        console.log(`VIOLATION property=C13 replay=${a1} class=${hit}`);
        process.exit(1);
      }
      console.log(`replay of ${a1} did not reproduce class '${run.violation_class}'`);
      process.exit(0);
    }
    if (run.ops && run.ops[0] && run.ops[0].op === "big") {
      const { op, ...plan } = run.ops[0];
      const r = bigC13(ctxs.H, plan);
      if (!r.ok) {
        console.log(`VIOLATION property=C13 replay=${a1} class=digest-is-not-sha256-of-the-written-bytes`);
        process.exit(1);
      }
      console.log(`replay of ${a1} did not reproduce class '${run.violation_class}'${r.skipped ? " (" + r.skipped + ")" : ""}`);
      process.exit(0);
    }
    if (run.deleted_globals) {
      const r1 = await alone(SELF, [prop], run, 30000);
      const r2 = await alone(SELF, [prop], run, 30000, { JSIM_DELETE_GLOBALS: run.deleted_globals.join(",") });
      if (r1.result && r2.result && r1.result.digest !== r2.result.digest) {
        console.log(`VIOLATION property=${prop} replay=${a1} class=digest-depends-on-the-globals-of-the-engine`);
        process.exit(1);
      }
      console.log(`replay of ${a1} did not reproduce class '${run.violation_class}'${r2.fatal ? " (the runtime does not load without " + run.deleted_globals.join(",") + ")" : ""}`);
      process.exit(0);
    }
    if (run.violation_class === "call-never-returns") {
      const r = await alone(SELF, [prop], run, 30000);
      if (r.stalled) {
        console.log(`VIOLATION property=${prop} replay=${a1} class=call-never-returns`);
        process.exit(1);
      }
      console.log(`replay of ${a1} did not reproduce class 'call-never-returns'`);
      process.exit(0);
    }
    const out = prop === "C16" ? await execC16(ctxs.mods, ctxs.SPC, run) : execC13(ctxs.H, run);
    const hit = out.violations.find((v) => !run.violation_class || v.class === run.violation_class);
    if (hit) {
      console.log(`VIOLATION property=${prop} replay=${a1} class=${hit.class}`);
      process.exit(1);
    }
    console.log(`replay of ${a1} did not reproduce class '${run.violation_class}'${out.skipped ? " (" + out.skipped + ")" : ""}`);
    process.exit(0);
  }
  const prop = cmd;
  const tier = a1 || "quick";
  const t0 = process.hrtime.bigint();
  const runs = budget(prop, tier);
  const workers = Number(process.env.VERIF_WORKERS || 16);
  console.log(`SEED ${ROOT} property=${prop} tier=${tier} runs=${runs} workers=${workers}`);
  const agg = { n: 0, prints: 0, throws: 0, exports: 0, writes: 0, bytes: 0, viol: new Map(), sigs: new Set(), nontrivial: new Set(), samples: [], crossed: 0, extraPad: 0, overrides: 0, skipped: 0, classes: new Set(), refs: 0, defs: 0 };
  const only = process.env.JSIM_ONLY ? process.env.JSIM_ONLY.split(",").map(Number) : null;
  const indices = only ?? Array.from({ length: runs }, (_, i) => i);
  // recorded histories (corpus/regress_jsim.json: the minimised replay files of every repaired defect and of
  // every detection of an independently written breaking change), executed as explicit runs after the seeded ones
  let recorded = 0;
  if (!only && !process.env.JSIM_NO_REGRESS) {
    try {
      const reg = JSON.parse(fs.readFileSync(path.join(HOME, "corpus/regress_jsim.json"), "utf8"));
      for (const e of reg) {
        const r = e.run;
        if (r.property !== prop || !Array.isArray(r.ops) || (r.ops[0] && r.ops[0].op === "hash256-stability") || r.deleted_globals || r.violation_class === "call-never-returns") continue;
        const { observed, violation_class, root_seed, run_index, engine, property, ...run } = r;
        indices.push({ index: REG_BASE + recorded, run });
        recorded++;
      }
    } catch {}
  }
  const stalled = [];
  const ENV_BATCH = prop === "C13" && !only ? (tier === "quick" ? 10000 : 200000) : 0;
  const baseC13 = new Map();
  let poolInfo = { stalls: 0, executed: indices.length };
  try {
    poolInfo = await pool(SELF, [prop], indices, workers, (index, r) => {
      agg.n++;
      if (r.skipped) agg.skipped++;
      agg.prints += r.prints || 0;
      agg.throws += r.throws || 0;
      agg.exports += r.exports || 0;
      agg.flat = (agg.flat || 0) + (r.flat || 0);
      agg.exportEdits = (agg.exportEdits || 0) + (r.exportEdits || 0);
      agg.foreign = (agg.foreign || 0) + (r.foreign || 0);
      agg.optionEdits = (agg.optionEdits || 0) + (r.optionEdits || 0);
      agg.writes += r.writes || 0;
      agg.bytes += r.bytes || 0;
      agg.siblings = (agg.siblings || 0) + (r.siblings || 0);
      agg.refs += r.refs || 0;
      agg.defs += r.defs || 0;
      if (r.classCalls) for (const [k, v] of Object.entries(r.classCalls)) (agg.classCalls ??= {})[k] = (agg.classCalls[k] || 0) + v;
      if (r.overrides) agg.overrides++;
      if (r.pristine) agg.pristine = (agg.pristine || 0) + 1;
      if (r.long) agg.longRuns = (agg.longRuns || 0) + 1;
      if (r.crossedBlock) agg.crossed++;
      if (r.extraPadBlock) agg.extraPad++;
      if (prop === "C16") {
        agg.sigs.add(r.sig);
        if (r.nontrivial) agg.nontrivial.add(r.sig);
      } else {
        agg.classes.add(r.cls);
        if (r.nontrivial) agg.nontrivial.add(r.cls);
      }
      if (prop === "C13" && index < ENV_BATCH) baseC13.set(index, r.digest);
      if (index < 3 && r.run) agg.samples.push({ run_index: index, ...r.run, observed: { prints: r.prints, throws: r.throws, writes: r.writes, bytes: r.bytes, definitions: r.defs, violations: r.violations.map((v) => v.class) } });
      for (const v of r.violations) {
        if (r.syntheticNameCollision && ["export-depends-on-call-history", "definition-differs-from-fresh-single-print", "dangling-ref"].includes(v.class)) {
          agg.kf164 = (agg.kf164 || 0) + 1;
          agg.kf164example = agg.kf164example ?? `${r.run ? r.run.module : "?"} / ${r.syntheticNameCollision}`;
          continue;
        }
        const cur = agg.viol.get(v.class);
        if (!cur || index < cur.index) agg.viol.set(v.class, { index, v, run: r.run });
      }
    }, (index, run) => stalled.push({ index, run }));
  } catch (e) {
    console.log("HARNESS-ERROR: " + e.message);
    process.exit(2);
  }
  // a call that never returned: confirm alone (30 s) before it counts
  stalled.sort((a, b) => a.index - b.index);
  let confirmedStall = null;
  for (const st of stalled.slice(0, 3)) {
    const r = await alone(SELF, [prop], st.run, 30000);
    if (r.stalled) {
      confirmedStall = st;
      break;
    }
  }
  if (stalled.length && !confirmedStall) {
    console.log(`HARNESS-ERROR: ${stalled.length} run(s) stalled in a worker but completed alone`);
    process.exit(2);
  }
  // C16 states no time bound, and a print of a densely mutually recursive module (flat schema(), or the hash() a
  // discriminated union takes to name its variants) unfolds every simple path through the named types - the open
  // known finding KF-C13-1. A confirmed stall on a module with that feature (at least 100 000 simple paths from one
  // of the parsers the run prints) is attributed to it; any other stall is a violation.
  if (confirmedStall && prop === "C16") {
    try {
      const mods = await loadModules();
      const m = mods.find((x) => x.id === confirmedStall.run.module);
      let paths = 0;
      for (const op of confirmedStall.run.ops || []) if (op.parser && m && m.P[op.parser]) paths = Math.max(paths, denseFeature(m.id, m.P[op.parser]));
      if (paths >= 100000) {
        console.log(`NOTE: seen while checking C16: known finding property=C13 a print of run ${confirmedStall.index} (module ${confirmedStall.run.module}) does not return within 30 s; one of its parsers reaches ${paths >= 200000 ? "more than 200000" : paths} simple paths through its named types [KF-C13-1]`);
        confirmedStall = null;
      }
    } catch {}
  }
  if (confirmedStall) {
    agg.n++;
    agg.viol.set("call-never-returns", { index: -2, v: { property: prop, class: "call-never-returns", detail: { run_index: confirmedStall.index, limit_s: 30 } }, run: confirmedStall.run });
    if (poolInfo.executed < indices.length) console.log(`NOTE: batch cut short after ${poolInfo.stalls} stalled runs (${indices.length - poolInfo.executed} run indices not executed)`);
  }
  // C13: the same write sequences in worker processes of an engine without TextEncoder (if the
  // runtime loads there at all): same sequence, same digest
  let noTextEncoder = null;
  if (ENV_BATCH && !confirmedStall) {
    noTextEncoder = { sequences: 0, runtime_loads_without_TextEncoder: true };
    try {
      await pool(SELF, [prop], Array.from({ length: Math.min(ENV_BATCH, runs) }, (_, i) => i), workers, (index, r) => {
        noTextEncoder.sequences++;
        for (const v of r.violations) if (!agg.viol.has(v.class)) agg.viol.set(v.class, { index, v, run: r.run });
        const want = baseC13.get(index);
        if (want !== undefined && r.digest !== want && !agg.viol.has("digest-depends-on-the-globals-of-the-engine")) {
          agg.viol.set("digest-depends-on-the-globals-of-the-engine", { index: -4, v: { property: "C13", class: "digest-depends-on-the-globals-of-the-engine", detail: { run_index: index, with_TextEncoder: want, without: r.digest } }, run: { ...genC13(index), deleted_globals: ["TextEncoder"] } });
        }
      }, () => {}, 20000, { JSIM_DELETE_GLOBALS: "TextEncoder" });
    } catch (e) {
      // the unchanged runtime needs the global at import time: nothing to compare then
      noTextEncoder = { sequences: 0, runtime_loads_without_TextEncoder: false, reason: String(e && e.message).split("\n")[0].slice(0, 200) };
    }
  }
  let big = null;
  if (prop === "C13" && !only) {
    const H = await rt("hash");
    installTap(H);
    big = { streams: 0, bytes: 0 };
    for (const plan of BIG_PLANS[tier === "quick" ? "quick" : "thorough"]) {
      const r = bigC13(H, plan);
      big.streams++;
      big.bytes += r.bytes;
      if (r.skipped) big.skipped = r.skipped;
      if (!r.ok && !agg.viol.has("digest-is-not-sha256-of-the-written-bytes(long stream)")) agg.viol.set("digest-is-not-sha256-of-the-written-bytes(long stream)", { index: -1, v: { property: "C13", class: "digest-is-not-sha256-of-the-written-bytes", detail: { got: r.got, want: r.want, bytes: r.bytes } }, run: { ops: [{ op: "big", ...plan }] } });
    }
  }
  // C13: termination / stability of hash256() and hash() on every parser of every compiled module
  let stability = null;
  if (prop === "C13" && !only) {
    const index = JSON.parse(fs.readFileSync(path.join(JSRT, "index.json"), "utf8"));
    const nMods = tier === "quick" ? Math.min(index.length, 200) : index.length;
    stability = { modules: nMods, parsers: 0, stalled: 0 };
    const st = [];
    const baseDigests = new Map();
    try {
      await pool(SELF, ["C13S"], Array.from({ length: nMods }, (_, i) => i), workers, (i, r) => {
        stability.parsers += r.hashed || 0;
        stability.max_steps_of_one_call = Math.max(stability.max_steps_of_one_call || 0, r.maxSteps || 0);
        stability.step_budget = STEP_BUDGET;
        stability.step_tap = !!r.stepTap;
        stability.calls_over_budget = (stability.calls_over_budget || 0) + (r.budgetExceeded || 0);
        stability.parsers_left_out_after_4s_of_cpu_on_their_module = (stability.parsers_left_out_after_4s_of_cpu_on_their_module || 0) + (r.cutShort || 0);
        stability.validate_and_safeParse_calls_in_between = (stability.validate_and_safeParse_calls_in_between || 0) + (r.usesInBetween || 0);
        stability.calls_that_died_of_stack_exhaustion_in_between = (stability.calls_that_died_of_stack_exhaustion_in_between || 0) + (r.deepThrows || 0);
        stability.walks_of_the_module_s_own_parsers_cut_off_by_stack_exhaustion = (stability.walks_of_the_module_s_own_parsers_cut_off_by_stack_exhaustion || 0) + (r.interruptedWalks || 0);
        baseDigests.set(i, r.digests || {});
        for (const v of r.violations) if (!agg.viol.has(v.class)) agg.viol.set(v.class, { index: -3, v, run: { ...r.run, ops: [{ op: "hash256-stability" }] } });
      }, (i, run) => st.push({ i, run }));
      // The process environment as a seam: the same modules hashed by processes started under other
      // locales (what Intl / localeCompare / toLocale* consult) and another time zone must give
      // the same digests.
      if (!st.length) {
        stability.other_process_environments = [];
        for (const env of [{ LC_ALL: "sv_SE.UTF-8", LANG: "sv_SE.UTF-8", TZ: "Pacific/Kiritimati", JSIM_STABILITY_LIGHT: "1" }, { LC_ALL: "cs_CZ.UTF-8", LANG: "cs_CZ.UTF-8", TZ: "America/St_Johns", JSIM_STABILITY_LIGHT: "1" }]) {
          let compared = 0;
          await pool(SELF, ["C13S"], Array.from({ length: nMods }, (_, i) => i), workers, (i, r) => {
            const want = baseDigests.get(i) || {};
            for (const [name, d] of Object.entries(r.digests || {})) {
              if (want[name] === undefined) continue;
              compared++;
              if (want[name] !== d && !agg.viol.has("hash-depends-on-the-process-environment")) {
                agg.viol.set("hash-depends-on-the-process-environment", { index: -3, v: { property: "C13", class: "hash-depends-on-the-process-environment", detail: { module: r.run ? r.run.module : i, parser: name, environment: env, here: want[name], there: d } }, run: { module: r.moduleId, env, ops: [{ op: "hash256-stability" }] } });
              }
            }
          }, () => {}, 20000, env);
          stability.other_process_environments.push({ env, digests_compared: compared });
        }
      }
    } catch (e) {
      console.log("HARNESS-ERROR: " + e.message);
      process.exit(2);
    }
    for (const x of st.slice(0, 4)) {
      const r = await alone(SELF, ["C13S"], x.run, 30000);
      if (r.stalled) {
        stability.stalled++;
        // without the step tap (the class it wraps was refactored away) the factorial walk of
        // KF-C13-1 shows up here; same input feature, same attribution
        let paths = 0;
        try {
          STRESS_TOO = true;
          const m = (await loadModules()).find((y) => y.id === x.run.module);
          if (m) for (const n of m.names) paths = Math.max(paths, denseFeature(m.id, m.P[n]));
        } catch {}
        const cls = paths >= 100000 ? "hash256-never-returns:simple-paths-through-named-types>=100000" : "hash256-never-returns";
        agg.viol.set(cls, { index: -3, v: { property: "C13", class: cls, detail: { module: x.run.module, limit_s: 30, simple_paths_through_named_types: paths } }, run: { ...x.run, ops: [{ op: "hash256-stability" }] } });
        if (paths < 100000) break;
      }
    }
  }
  // known findings, minimisation, replay files
  const findings = loadFindings();
  const ctxs = {};
  if (agg.viol.size) {
    if (prop === "C16") {
      ctxs.SPC = (await rt("codegen-v2")).SchemaPrintingContext;
      ctxs.mods = await loadModules();
    } else {
      ctxs.H = await rt("hash");
      installTap(ctxs.H);
    }
  }
  const reported = [];
  const kfLines = [];
  if (agg.kf164) {
    const kf = findings.find((k) => k.status === "open" && k.id === "KF-C16-4");
    if (kf) kfLines.push(`KNOWN-FINDING: property=C16 ${kf.what_fails_short} (e.g. ${agg.kf164example}) [${kf.id}] (x${agg.kf164})`);
    else agg.viol.set("synthetic-variant-definition-name-collision", { index: -1, v: { property: "C16", class: "synthetic-variant-definition-name-collision", detail: { example: agg.kf164example, count: agg.kf164 } }, run: { module: "?", ctx: {}, ops: [] } });
  }
  for (const [cls, { index, v, run }] of [...agg.viol.entries()].sort()) {
    const kf = findings.find((k) => k.status === "open" && k.property === prop && k.signature && k.signature.kind === "jsim-class" && (cls.startsWith(k.signature.class) || (k.signature.classes || []).includes(cls)));
    if (kf) {
      kfLines.push(`KNOWN-FINDING: property=${prop} ${kf.what_fails} [${kf.id}]`);
      continue;
    }
    let min = run;
    if (index >= 0) min = await minimize(prop, run, cls, ctxs);
    const final = index < 0 ? { violations: [v] } : prop === "C16" ? await execC16(ctxs.mods, ctxs.SPC, min) : execC13(ctxs.H, min);
    const fv = final.violations.find((x) => x.class === cls) ?? v;
    const file = { engine: "jsim", property: prop, violation_class: cls, root_seed: ROOT, run_index: index, ...min, observed: fv.detail };
    if (prop === "C16") file.module_project = corpusProject(min.module) ?? min.module_project ?? null;
    const dir = path.join(HOME, "out/replays", prop);
    fs.mkdirSync(dir, { recursive: true });
    const p = path.join(dir, fnv32(canon(file)).toString(16).padStart(8, "0") + ".json");
    fs.writeFileSync(p, JSON.stringify(file, null, 1));
    reported.push({ cls, p });
  }
  const wall = Number(process.hrtime.bigint() - t0) / 1e9;
  const evidence = {
    property_id: prop,
    tier,
    seed: ROOT,
    level: "exploration",
    wall_s: wall,
    violations: reported.length,
    coverage:
      prop === "C16"
        ? {
            evaluations: agg.n,
            distinct_nontrivial: agg.nontrivial.size,
            rule: "one evaluation = one seeded sequence of 1-12 schemaWithContext / exportDefinitions calls on ONE SchemaPrintingContext (random refPathTemplate, container key, overrides) over a module compiled by the real compiler from a corpus project; oracles recomputed with fresh contexts; distinct = distinct (module, configuration, call sequence); non-trivial = at least two prints and a non-empty final export",
            samples: agg.samples,
            simulated_runs: agg.n,
            recorded_histories_replayed: recorded,
            runs_per_hour: Math.round((agg.n / Math.max(wall, 0.001)) * 3600),
            simulated_time_events: agg.prints + agg.exports,
            prints: agg.prints,
            prints_that_threw_midway: agg.throws,
            export_calls: agg.exports,
            flat_schema_calls_interleaved: agg.flat || 0,
            exports_edited_by_the_caller: agg.exportEdits || 0,
            parsers_of_another_module_printed_into_the_context: agg.foreign || 0,
            options_object_edited_after_construction: agg.optionEdits || 0,
            runs_with_overrides: agg.overrides,
            runs_on_brand_new_module_instances: agg.pristine || 0,
            sequences_of_more_than_12_calls: agg.longRuns || 0,
            schema_calls_per_runtype_class: agg.classCalls || {},
            refs_resolved: agg.refs,
            definitions_compared: agg.defs,
            distinct_sequences: agg.sigs.size,
            faults_fired: { print_that_throws: agg.throws, export_edited_by_the_caller: agg.exportEdits || 0, options_object_edited_after_construction: agg.optionEdits || 0, flat_print_interleaved: agg.flat || 0, history_on_a_brand_new_module_instance: agg.pristine || 0 },
            components: { real: ["packages/beff-client/src/*.ts type-stripped from the working tree (codegen-v2, hash, err, openapi-pp, b, index)", "modules emitted by the real compiler (native beff-wasm session) from corpus and seeded synthetic projects", "24 seeded graphs of named types built at run time with the b API / createNamedType / overrideNamedType"], stub: ["zod (one-line stub)", "bundle-to-disk finalize wrapper (re-stated, self-tested)", "type stripper (swc based; fails loudly on syntax it does not handle)"] },
          }
        : {
            evaluations: agg.n + (big ? big.streams : 0),
            distinct_nontrivial: agg.nontrivial.size,
            rule: "one evaluation = one seeded sequence of 0-40 public writes (tag/string/number/boolean/null) on one Hash256Writer, string lengths steered onto block and padding boundaries, then digestHex and post-digest fault operations; oracle = node:crypto SHA-256 over the bytes tapped at the writer's single byte sink; distinct = distinct (total length mod 64, number of writes) classes; non-trivial = at least one byte written",
            samples: agg.samples,
            simulated_runs: agg.n,
            recorded_histories_replayed: recorded,
            runs_per_hour: Math.round((agg.n / Math.max(wall, 0.001)) * 3600),
            simulated_time_events: agg.writes,
            writes: agg.writes,
            bytes_hashed: agg.bytes,
            sequences_crossing_a_block_boundary: agg.crossed,
            sequences_needing_the_extra_padding_block: agg.extraPad,
            sibling_sequences_compared_for_injectivity: agg.siblings || 0,
            very_long_streams: big ? { ...big, what: "quick: a few small writes around ONE write of 2^28 bytes; thorough adds 514 x 1 MiB (more than 2^29 bytes), one write of 2^29 - 64 bytes, two writes of 2^28 + 3 bytes after 61 bytes" } : null,
            hash256_stability_leg: stability,
            engine_without_TextEncoder: noTextEncoder,
            faults_fired: { operations_after_digest: "see samples; every run ends with 0-2 of them" },
            components: { real: ["packages/beff-client/src/hash.ts type-stripped from the working tree"], stub: ["type stripper (swc based)"], oracle: "node:crypto createHash('sha256')" },
          },
    assumptions: prop === "C16" ? ["equality of schemas is deep equality ignoring object key order", "a sampled search: a clean batch is evidence, not proof"] : ["only the digest-routine clause of C13 is decided (all write sequences); the structural-fingerprint clauses compare pairs of type programs and are pure", "framing (tag bytes, length prefix) is taken from the tap, not assumed"],
  };
  fs.mkdirSync(path.join(HOME, "evidence"), { recursive: true });
  fs.writeFileSync(path.join(HOME, "evidence", prop + ".json"), JSON.stringify(evidence, null, 1));
  for (const l of [...new Set(kfLines)]) console.log(l);
  console.log(`SUMMARY property=${prop} runs=${agg.n} events=${prop === "C16" ? agg.prints + agg.exports : agg.writes} distinct_nontrivial=${agg.nontrivial.size} wall=${wall.toFixed(1)}s`);
  if (agg.skipped) console.log(`NOTE: ${agg.skipped} runs skipped (module not loadable)`);
  if (reported.length) {
    for (const r of reported) console.log(`VIOLATION property=${prop} replay=${r.p} class=${r.cls}`);
    process.exit(1);
  }
  // vacuity guard: the oracles compare the code under test with itself (a context with a past against fresh
  // contexts; a digest against the bytes the writer was seen to take in), so a runtime in which nearly every print
  // throws, or which writes nothing, would pass them all - and nothing would have been decided
  if (!only && agg.n >= 1000) {
    if (prop === "C16" && (agg.throws * 10 > agg.prints * 6 || agg.refs === 0 || agg.defs === 0)) {
      console.log(`HARNESS-ERROR: the workload has become vacuous: ${agg.throws} of ${agg.prints} prints threw (normally about a quarter), ${agg.refs} $refs resolved, ${agg.defs} definitions compared: nothing was decided`);
      process.exit(2);
    }
    if (prop === "C13" && (agg.bytes < agg.n * 20 || !(agg.siblings > 0))) {
      console.log(`HARNESS-ERROR: the workload has become vacuous: ${agg.bytes} bytes digested in ${agg.n} sequences, ${agg.siblings || 0} siblings compared: nothing was decided`);
      process.exit(2);
    }
  }
  process.exit(0);
}
main();
