// e2eleg.mjs <quick|thorough> | worker <from> <to> | replay <file>
// End-to-end leg of C14: the working tree's commandeer.ts / bundler.ts / bundle-to-disk.ts /
// project.ts run in WATCH MODE with the REAL compiler session behind them - the native build of
// beff-wasm's session layer and beff-core, reached through `sim bridge` (sim/src/bridge.rs): every
// call of the wasm package is forwarded to it, every host function the compiler calls during a
// build is answered by bundler.ts's own read_file_content / resolve_import / emit_diagnostic. The
// only stand-ins left are chokidar (watchers are recorded and fired by the leg), commander, chalk
// and @babel/code-frame. The histories are the ones ssim generates for C14 (`sim gen C14 <i>`:
// corpus and synthetic projects, seeded saves / creations / deletions, lost, delayed and duplicated
// notifications), executed on a real scratch directory; host faults that ssim injects into its
// model of the host (read / resolve errors) have no counterpart on a real file system and are
// skipped. At every checkpoint the session is brought up to date the way a user would (every
// watched file whose text differs from what was last handed over gets its change event; if nothing
// was built since the last change on disk, the entry file is saved once more unchanged), and then
//   * what the compiler returned in the session's last build (code or none, emitted diagnostics),
//   * and the generated file on disk
// must equal those of a brand-new one-shot process (new evaluation of the four host modules, new
// compiler process) over the same directory.
import fs from "node:fs";
import path from "node:path";
import { spawn, execFileSync } from "node:child_process";
import { fileURLToPath } from "node:url";
import { fnv32, canon } from "./lib.mjs";
import { buildTsNode } from "./hostlib.mjs";

const HOME = process.env.VERIF_HOME || "/verif";
const ROOT = Number(process.env.VERIF_SEED || 1);
const OUT = path.join(HOME, "out");
const SIM = path.join(HOME, "target/release/sim");
const SELF = fileURLToPath(import.meta.url);

const BRIDGE_CLIENT = `
const fs = require("fs"), cp = require("child_process"), path = require("path");
let B = null;
function start() {
  const dir = fs.mkdtempSync(path.join(process.env.E2E_TMP, "br"));
  const req = path.join(dir, "req"), resp = path.join(dir, "resp");
  cp.execFileSync("mkfifo", [req, resp]);
  const child = cp.spawn(process.env.E2E_SIM, ["bridge", req, resp, String(globalThis.__bridge_seed ?? 7)], { stdio: "ignore" });
  const tx = fs.openSync(req, "w");
  const rx = fs.openSync(resp, "r");
  B = { child, tx, rx, buf: Buffer.alloc(0), dir };
  (globalThis.__bridges ??= []).push(B);
}
function readLine() {
  for (;;) {
    const nl = B.buf.indexOf(10);
    if (nl >= 0) {
      const line = B.buf.subarray(0, nl).toString("utf8");
      B.buf = B.buf.subarray(nl + 1);
      return line;
    }
    const chunk = Buffer.alloc(1 << 16);
    const n = fs.readSync(B.rx, chunk, 0, chunk.length, null);
    if (n === 0) throw new Error("compiler process ended");
    B.buf = Buffer.concat([B.buf, chunk.subarray(0, n)]);
  }
}
function call(msg) {
  if (!B) start();
  fs.writeSync(B.tx, JSON.stringify(msg) + "\\n");
  for (;;) {
    const m = JSON.parse(readLine());
    if ("r" in m) return m.r;
    if ("panic" in m) {
      (globalThis.__bridge_panics ??= []).push(m.panic);
      throw new Error("compiler panicked: " + m.panic);
    }
    let a = null;
    if (m.q === "read") a = globalThis.read_file_content(m.file) ?? null;
    else if (m.q === "resolve") a = globalThis.resolve_import(m.from, m.spec) ?? null;
    else if (m.q === "emit") {
      if (globalThis.__last_build) globalThis.__last_build.emitted.push(m.json);
      // what the host PRINTS for these diagnostics (message, location, the quoted lines of the file) is output of
      // the build as well: taken down here, compared like the rest
      const __saved = { log: console.log, error: console.error, warn: console.warn, info: console.info };
      const __out = [];
      const __put = (k) => (...a) => __out.push(k + " " + a.map(String).join(" "));
      console.log = __put("L"); console.error = __put("E"); console.warn = __put("W"); console.info = __put("I");
      try {
        globalThis.emit_diagnostic(m.json);
      } finally {
        Object.assign(console, __saved);
      }
      if (globalThis.__last_build) globalThis.__last_build.printed.push(__out.join("\\n"));
    }
    fs.writeSync(B.tx, JSON.stringify({ a }) + "\\n");
  }
}
const rec = (name, args) => globalThis.__wasm_calls.push({ name, args });
module.exports = {
  init(v) { rec("init", [v]); },
  update_file_content(f, c) { rec("update_file_content", [f, c]); call({ call: "update", file: f, content: c }); },
  bundle_to_string_v2(entry, settings) {
    rec("bundle_to_string_v2", [entry, settings]);
    globalThis.__last_build = { emitted: [], printed: [], code: undefined, n: (globalThis.__builds = (globalThis.__builds || 0) + 1) };
    const r = call({ call: "string", entry, settings });
    globalThis.__last_build.code = r ?? null;
    return r ?? undefined;
  },
  bundle_to_diagnostics(entry, settings) { rec("bundle_to_diagnostics", [entry, settings]); return call({ call: "diagnostics", entry, settings }); },
};
`;

function closeBridges() {
  for (const b of globalThis.__bridges || []) {
    try { b.child.kill("SIGKILL"); } catch {}
    try { fs.closeSync(b.tx); } catch {}
    try { fs.closeSync(b.rx); } catch {}
    fs.rmSync(b.dir, { recursive: true, force: true });
  }
  globalThis.__bridges = [];
}

// indices from REC_BASE on denote the recorded ssim histories (corpus/regress_ssim.json, explicit runs)
const REC_BASE = 1e9;
let RECORDED = null;
function recorded() {
  if (RECORDED) return RECORDED;
  try {
    RECORDED = JSON.parse(fs.readFileSync(path.join(HOME, "corpus/regress_ssim.json"), "utf8")).map((e) => e.run).filter((r) => r && Array.isArray(r.ops) && r.ops.length && r.project && r.project.files && (process.env.E2E_MODE === "oneshot" ? false : true));
  } catch {
    RECORDED = [];
  }
  return RECORDED;
}
// indices from WS_BASE on denote "history <index - WS_BASE> in workspace mode"; histories whose project has no
// package under node_modules are skipped there (null)
const WS_BASE = 2e9;
function genRun(index) {
  if (index >= WS_BASE) {
    const run = genRun(index - WS_BASE);
    if (!run || !run.project || !Object.keys(run.project.files).some((f) => /\/node_modules\/[^/]+\/index\.ts$/.test(f))) return null;
    // (the one-shot flavour only wants the projects with a package: there the links into the store matter)
    if (process.env.E2E_MODE === "oneshot") return run;
    run.__ws = true;
    run.ops = [...run.ops, { op: "ws_edit" }, { op: "checkpoint" }];
    return run;
  }
  if (index >= REC_BASE) return recorded()[index - REC_BASE];
  const out = execFileSync(SIM, ["gen", process.env.E2E_MODE === "oneshot" ? "C10" : "C14", String(index)], { encoding: "utf8", maxBuffer: 1 << 28, env: { ...process.env, VERIF_SEED: String(ROOT) } });
  return JSON.parse(out);
}

// ---------------------------------------------------------------------------------------------
// one history
// ---------------------------------------------------------------------------------------------
async function execHistory(T, run, base) {
  const res = { violations: [], checkpoints: 0, compared: 0, events: 0, builds: 0, skipped: null, panics: 0 };
  const viol = (cls, detail) => {
    if (!res.violations.some((v) => v.class === cls)) res.violations.push({ class: cls, detail });
  };
  const root = path.join(base, "proj");
  fs.rmSync(root, { recursive: true, force: true });
  const abs = (f) => path.join(root, f);
  const put = (f, c) => {
    fs.mkdirSync(path.dirname(abs(f)), { recursive: true });
    fs.writeFileSync(abs(f), c);
  };
  // WORKSPACE MODE (run.__ws): every package under node_modules is a symbolic link to a sibling directory
  // `ws_<pkg>` (what yarn / pnpm workspaces lay out), and the entry file also reaches the package's index file by a
  // RELATIVE path - one file on disk, two spellings, two slots in the session's module cache, two watchers
  const ws = { on: !!run.__ws, pkgIndex: null, name: null, spec: null };
  if (ws.on) {
    const idx = Object.keys(run.project.files).filter((f) => /\/node_modules\/[^/]+\/index\.ts$/.test(f)).sort()[0];
    const m = idx && /^(.*)\/node_modules\/([^/]+)\/index\.ts$/.exec(idx);
    const name = idx && (/export\s+(?:type|interface)\s+([A-Za-z_][A-Za-z0-9_]*)/.exec(run.project.files[idx]) || [])[1];
    if (m && name) {
      ws.pkgIndex = idx;
      ws.name = name;
      let rel = path.relative(path.dirname(run.project.entry), m[1] + "/ws_" + m[2] + "/index");
      ws.spec = rel.startsWith(".") ? rel : "./" + rel;
    }
  }
  const viaWs = (f, c) => {
    if (!ws.spec || f !== run.project.entry || typeof c !== "string" || !c.includes("buildParsers<{")) return c;
    return c.replace("buildParsers<{", "buildParsers<{ LegRel: LegRel; ") + `\nimport { ${ws.name} as LegRel_${ws.name} } from "${ws.spec}";\nexport type LegRel = { viaRelativePath: LegRel_${ws.name} };\n`;
  };
  for (const [f, c] of Object.entries(run.project.files)) put(f, viaWs(f, c));
  if (ws.on) {
    for (const f of Object.keys(run.project.files)) {
      const m = /^(.*)\/node_modules\/([^/]+)\//.exec(f);
      if (!m) continue;
      const pkgDir = path.join(root, m[1], "node_modules", m[2]);
      try {
        if (fs.lstatSync(pkgDir).isSymbolicLink()) continue;
      } catch {
        continue;
      }
      const target = path.join(root, m[1], "ws_" + m[2]);
      fs.renameSync(pkgDir, target);
      fs.symlinkSync(target, pkgDir, "dir");
      res.linked = (res.linked || 0) + 1;
    }
  }
  const proj = { parser: path.relative(root, abs(run.project.entry)), outputDir: "e2e_out", stringFormats: run.project.settings.string_formats.map((name) => ({ name })), numberFormats: run.project.settings.number_formats.map((name) => ({ name })) };
  if (run.project.module && run.project.module !== "esm") proj.module = run.project.module;
  fs.writeFileSync(path.join(root, "beff.json"), JSON.stringify(proj));
  const outFile = path.join(root, "e2e_out/parser.js");
  const realConsole = { error: console.error, log: console.log, warn: console.warn, info: console.info };
  const realExit = process.exit;
  const cwd0 = process.cwd();
  // timers of the code under test run on a simulated clock, its asynchronous file operations are counted while
  // in flight, and the leg waits for quiescence (as in watchloop.mjs): a host that debounces or reads
  // asynchronously is waited for, however long the machine takes
  const real = { setTimeout: globalThis.setTimeout, clearTimeout: globalThis.clearTimeout, setInterval: globalThis.setInterval, clearInterval: globalThis.clearInterval, setImmediate: globalThis.setImmediate };
  const clock = { now: 0, seq: 0, q: [] };
  const addTimer = (fn, ms, args, every) => {
    const t = { id: ++clock.seq, at: clock.now + Math.max(0, Number(ms) || 0), fn, args, every };
    clock.q.push(t);
    return t.id;
  };
  const drain = () => {
    let guard = 0;
    while (clock.q.length && guard++ < 10000) {
      clock.q.sort((a, b) => a.at - b.at || a.id - b.id);
      const t = clock.q.shift();
      if (t.every != null) {
        if (t.at > clock.now + 60000) continue;
        clock.q.push({ ...t, at: t.at + Math.max(1, t.every) });
      }
      clock.now = Math.max(clock.now, t.at);
      try {
        t.fn(...t.args);
      } catch {}
    }
    clock.q = clock.q.filter((t) => t.every == null);
  };
  globalThis.setTimeout = (fn, ms, ...args) => addTimer(fn, ms, args, null);
  globalThis.clearTimeout = (id) => { clock.q = clock.q.filter((t) => t.id !== id); };
  globalThis.setInterval = (fn, ms, ...args) => addTimer(fn, ms, args, Number(ms) || 1);
  globalThis.clearInterval = globalThis.clearTimeout;
  globalThis.setImmediate = (fn, ...args) => addTimer(fn, 0, args, null);
  let inflight = 0;
  const realFsP = {};
  for (const k of Object.keys(fs.promises)) {
    if (typeof fs.promises[k] !== "function") continue;
    realFsP[k] = fs.promises[k];
    fs.promises[k] = (...a) => {
      inflight++;
      return Promise.resolve(realFsP[k].apply(fs.promises, a)).finally(() => { inflight--; });
    };
  }
  const turn = () => new Promise((r) => real.setImmediate(r));
  const settle = async () => {
    let idle = 0, turns = 0, waited = 0;
    while (idle < 3 && turns < 5000 && waited < 20000) {
      const before = (globalThis.__wasm_calls || []).length;
      drain();
      if (inflight > 0) {
        await new Promise((r) => real.setTimeout(r, 1));
        waited++;
        idle = 0;
        continue;
      }
      turns++;
      await turn();
      if (clock.q.length === 0 && inflight === 0 && (globalThis.__wasm_calls || []).length === before) idle++;
      else idle = 0;
    }
  };
  globalThis.__bridge_panics = [];
  globalThis.__builds = 0;
  const startProcess = (watch, seed) => {
    globalThis.__bridge_seed = seed;
    globalThis.__beff_cli_opts = { watch, project: path.join(root, "beff.json"), verbose: false };
    console.error = console.log = console.warn = console.info = () => {};
    process.exit = (code) => {
      throw Object.assign(new Error("process.exit"), { exitCode: code });
    };
    process.chdir(root);
    const C = T.newProcess();
    try {
      C.commanderExec();
    } catch (e) {
      if (!(e && e.message === "process.exit")) throw e;
    }
  };
  try {
    startProcess(true, run.session_hash_seed || 7);
    await settle();
    const handed = new Map(); // file -> text last handed over by a change event
    let dirtySinceBuild = false;
    // a save reaches every watcher whose watched path leads to the saved file (by real path), each listener being
    // called with the path that was handed to watch() - what the real library does with a file that is watched
    // under two spellings
    const realOf = (p) => {
      try {
        return fs.realpathSync(p);
      } catch {
        return p;
      }
    };
    const watched = (f) => {
      const r = ws.on ? realOf(abs(f)) : null;
      const seen = new Set();
      return (globalThis.__watchers || []).filter((w) => {
        if (w.ev !== "change" || seen.has(w.path)) return false;
        if (w.path === abs(f) || (ws.on && realOf(w.path) === r)) {
          seen.add(w.path);
          return true;
        }
        return false;
      });
    };
    const fire = async (f) => {
      const wl = watched(f);
      if (!wl.length) return false;
      if (wl.length > 1) res.saves_seen_under_two_spellings = (res.saves_seen_under_two_spellings || 0) + 1;
      const before = globalThis.__builds;
      for (const w of ws.on ? wl : wl.slice(0, 1)) {
        try {
          w.cb(ws.on ? w.path : abs(f));
        } catch (e) {
          viol("watch-loop-dies-of-an-error-it-does-not-catch", { file: f, error: String(e && e.message).slice(0, 200) });
        }
      }
      await settle();
      res.events++;
      if (fs.existsSync(abs(f))) handed.set(f, fs.readFileSync(abs(f), "utf8"));
      if (globalThis.__builds > before) dirtySinceBuild = false;
      return true;
    };
    for (let i = 0; i < run.ops.length; i++) {
      const op = run.ops[i];
      if (op.op === "write") {
        put(op.f, viaWs(op.f, op.content));
        dirtySinceBuild = true;
      } else if (op.op === "ws_edit") {
        // the package's index file is saved with its first exported alias widened (one save, one file on disk)
        if (ws.pkgIndex && fs.existsSync(abs(ws.pkgIndex))) {
          const cur = fs.readFileSync(abs(ws.pkgIndex), "utf8");
          const ed = cur.replace(/export type ([A-Za-z_][A-Za-z0-9_]*) = /, (m0) => m0 + "null | ");
          if (ed !== cur) {
            put(ws.pkgIndex, ed);
            dirtySinceBuild = true;
            res.ws_edits = (res.ws_edits || 0) + 1;
            await fire(ws.pkgIndex);
          }
        }
      } else if (op.op === "write_prefix") {
        put(op.f, op.content.slice(0, op.k));
        dirtySinceBuild = true;
      } else if (op.op === "delete") {
        fs.rmSync(abs(op.f), { force: true });
        dirtySinceBuild = true;
      } else if (op.op === "deliver" || op.op === "update") {
        await fire(op.f);
      } else if (op.op === "checkpoint") {
        res.checkpoints++;
        // bring the session up to date the way a user would
        const files = [...new Set([...Object.keys(run.project.files), ...run.ops.filter((o) => o.f).map((o) => o.f)])].sort();
        let comparable = true;
        for (const f of files) {
          if (!watched(f).length) continue; // never read by a build: the session holds nothing of it
          if (!fs.existsSync(abs(f))) {
            // a watched file that is gone: the loop has no unlink handler. For the ENTRY POINT that is outside C14's
            // quantifier (the session goes on compiling what it holds). Any other file is reached through import
            // resolutions only, which the session re-validates (or asks of the host) in every build: comparable
            if (f === run.project.entry) comparable = false;
            else {
              res.compared_while_a_watched_file_was_gone = (res.compared_while_a_watched_file_was_gone || 0) + 1;
              dirtySinceBuild = true;
            }
            continue;
          }
          const disk = fs.readFileSync(abs(f), "utf8");
          if (handed.has(f) ? handed.get(f) !== disk : disk !== viaWs(f, run.project.files[f])) await fire(f);
        }
        if (!comparable) continue;
        if (dirtySinceBuild) {
          if (!watched(run.project.entry).length || !fs.existsSync(abs(run.project.entry))) continue;
          await fire(run.project.entry);
        }
        if (globalThis.__bridge_panics.length) {
          res.panics = globalThis.__bridge_panics.length;
          res.skipped = "the compiler panicked (the C04 check's business)";
          break;
        }
        const sess = globalThis.__last_build ? { code: globalThis.__last_build.code, emitted: globalThis.__last_build.emitted, printed: globalThis.__last_build.printed || [] } : null;
        const sessDisk = fs.existsSync(outFile) ? fs.readFileSync(outFile, "utf8") : null;
        const sessWatchers = globalThis.__watchers;
        const sessCalls = globalThis.__wasm_calls;
        const sessLast = globalThis.__last_build;
        const sessBuilds = globalThis.__builds;
        // a brand-new one-shot process over the same directory (its output goes to the same place)
        const keep = { read: globalThis.read_file_content, res: globalThis.resolve_import, emit: globalThis.emit_diagnostic };
        const keepBridges = globalThis.__bridges;
        globalThis.__bridges = [];
        fs.rmSync(path.dirname(outFile), { recursive: true, force: true });
        let fresh = null, freshDisk = null;
        try {
          startProcess(false, (op.fresh_hash_seeds && op.fresh_hash_seeds[0]) || 11);
          await settle();
          fresh = globalThis.__last_build ? { code: globalThis.__last_build.code, emitted: globalThis.__last_build.emitted, printed: globalThis.__last_build.printed || [] } : null;
          freshDisk = fs.existsSync(outFile) ? fs.readFileSync(outFile, "utf8") : null;
        } finally {
          closeBridges();
          globalThis.__bridges = keepBridges;
        }
        const freshPanicked = globalThis.__bridge_panics.length > 0;
        // back to the watch process: its globals, its records, its output
        globalThis.read_file_content = keep.read;
        globalThis.resolve_import = keep.res;
        globalThis.emit_diagnostic = keep.emit;
        globalThis.__watchers = sessWatchers;
        globalThis.__wasm_calls = sessCalls;
        globalThis.__last_build = sessLast;
        globalThis.__builds = sessBuilds;
        globalThis.__beff_cli_opts = { watch: true, project: path.join(root, "beff.json"), verbose: false };
        if (sessDisk != null) {
          fs.mkdirSync(path.dirname(outFile), { recursive: true });
          fs.writeFileSync(outFile, sessDisk);
        } else fs.rmSync(path.dirname(outFile), { recursive: true, force: true });
        if (freshPanicked) {
          res.skipped = "the compiler panicked (the C04 check's business)";
          break;
        }
        if (!sess || !fresh) continue;
        res.compared++;
        if (sess.printed.length) res.printed_compared = (res.printed_compared || 0) + 1;
        const strip = (s) => (s == null ? s : s.split(root).join("<ROOT>"));
        if (canon({ code: sess.code, emitted: sess.emitted.map(strip) }) !== canon({ code: fresh.code, emitted: fresh.emitted.map(strip) })) {
          viol("e2e-session-build-differs-from-a-fresh-process", { op_index: i, session: { code: sess.code == null ? null : `${sess.code.length} bytes #${fnv32(sess.code).toString(16)}`, emitted: sess.emitted.map(strip) }, fresh: { code: fresh.code == null ? null : `${fresh.code.length} bytes #${fnv32(fresh.code).toString(16)}`, emitted: fresh.emitted.map(strip) } });
        } else if (canon(sess.printed.map(strip)) !== canon(fresh.printed.map(strip))) {
          viol("e2e-printed-diagnostics-differ-from-a-fresh-process", { op_index: i, session: sess.printed.map(strip).join("\n").slice(0, 1500), fresh: fresh.printed.map(strip).join("\n").slice(0, 1500) });
        } else if (fresh.code != null && sessDisk !== freshDisk) {
          viol("e2e-generated-file-differs-from-a-fresh-process", { op_index: i, session: sessDisk == null ? null : `${sessDisk.length} bytes #${fnv32(sessDisk).toString(16)}`, fresh: freshDisk == null ? null : `${freshDisk.length} bytes #${fnv32(freshDisk).toString(16)}` });
        }
      }
      // fault_on / fault_off / rebuild: no counterpart in the watch loop over a real file system
    }
    res.builds = globalThis.__builds;
  } catch (e) {
    res.skipped = "history could not be driven: " + String(e && e.stack).slice(0, 300);
  } finally {
    closeBridges();
    Object.assign(globalThis, real);
    for (const k of Object.keys(realFsP)) fs.promises[k] = realFsP[k];
    Object.assign(console, realConsole);
    process.exit = realExit;
    process.chdir(cwd0);
    fs.rmSync(root, { recursive: true, force: true });
  }
  return res;
}

// ---------------------------------------------------------------------------------------------
// C10, end to end: the same project built one-shot by brand-new processes (real host, real compiler) that
// differ in how the project is reached - absolute path, a path through a symbolic link to the project
// directory, a path relative to the working directory, packages under node_modules that are symbolic links
// (what pnpm / workspaces do) - and in the compiler's hash keys. What the compiler returns and what is written
// must be the same (the two spellings of the root mapped onto each other).
// ---------------------------------------------------------------------------------------------
async function execOneShot(T, run, base) {
  const res = { violations: [], compared: 0, builds: 0, skipped: null };
  const rootA = path.join(base, "proj");
  const rootB = path.join(base, "proj_via_link");
  fs.rmSync(rootA, { recursive: true, force: true });
  fs.rmSync(rootB, { recursive: true, force: true });
  for (const [f, c] of Object.entries(run.project.files)) {
    fs.mkdirSync(path.dirname(path.join(rootA, f)), { recursive: true });
    fs.writeFileSync(path.join(rootA, f), c);
  }
  // packages become symbolic links into a store, as a package manager with a content-addressed store lays them out
  let linked = 0;
  for (const f of Object.keys(run.project.files)) {
    const m = /^(.*\/node_modules)\/([^/]+)\//.exec(f);
    if (!m) continue;
    const pkgDir = path.join(rootA, m[1], m[2]);
    try {
      if (fs.lstatSync(pkgDir).isSymbolicLink()) continue;
    } catch {
      continue;
    }
    const store = path.join(rootA, "p/.store", m[2] + "_" + fnv32(m[1]).toString(16));
    fs.mkdirSync(path.dirname(store), { recursive: true });
    fs.renameSync(pkgDir, store);
    fs.symlinkSync(store, pkgDir, "dir");
    linked++;
  }
  // PATH ALIASES (one eligible project in three, decided by a hash of the entry file): a tsconfig.json next to the
  // project file maps "@proj/*" onto the project's source directory and the first relative import of the entry file
  // is respelled through the alias. Where the host looks for tsconfig.json must not depend on the working directory
  // of the process or on how the project file was named on the command line (KF-C10-5, repaired in 4c3d33b; seeded change c10l-1).
  let aliased = false;
  let aliasAbove = false;
  {
    const entryAbs = path.join(rootA, run.project.entry);
    const entryDir = path.dirname(run.project.entry).replace(/^\/+/, "");
    const src = fs.existsSync(entryAbs) ? fs.readFileSync(entryAbs, "utf8") : "";
    const m = /from "\.\/([A-Za-z0-9_\-]+)";/.exec(src);
    if (m && !fs.existsSync(path.join(rootA, "tsconfig.json")) && fnv32("alias|" + src) % 3 === 0) {
      fs.writeFileSync(entryAbs, src.replace(m[0], `from "@proj/${m[1]}";`));
      // (in one such project of two the tsconfig.json sits one directory ABOVE the project file: the search has to go
      // upwards from the project file's directory, also when that directory was named by a relative path)
      if (fnv32("alias-above|" + src) % 2 === 0) fs.writeFileSync(path.join(rootA, "tsconfig.json"), JSON.stringify({ compilerOptions: { baseUrl: ".", paths: { "@proj/*": [(entryDir ? entryDir + "/" : "") + "*"] } } }));
      else (aliasAbove = true), fs.writeFileSync(path.join(base, "tsconfig.json"), JSON.stringify({ compilerOptions: { baseUrl: ".", paths: { "@proj/*": ["proj/" + (entryDir ? entryDir + "/" : "") + "*"] } } }));
      aliased = true;
    }
  }
  fs.symlinkSync(rootA, rootB, "dir");
  const proj = { parser: path.relative(rootA, path.join(rootA, run.project.entry)), outputDir: "e2e_out", stringFormats: run.project.settings.string_formats.map((name) => ({ name })), numberFormats: run.project.settings.number_formats.map((name) => ({ name })) };
  if (run.project.module && run.project.module !== "esm") proj.module = run.project.module;
  fs.writeFileSync(path.join(rootA, "beff.json"), JSON.stringify(proj));
  const realConsole = { error: console.error, log: console.log, warn: console.warn, info: console.info };
  const realExit = process.exit;
  const cwd0 = process.cwd();
  globalThis.__bridge_panics = [];
  const once = (project, cwd, seed) => {
    fs.rmSync(path.join(rootA, "e2e_out"), { recursive: true, force: true });
    globalThis.__bridge_seed = seed;
    globalThis.__last_build = null;
    globalThis.__beff_cli_opts = { watch: false, project, verbose: false };
    process.chdir(cwd);
    try {
      T.newProcess().commanderExec();
    } catch (e) {
      if (!(e && e.message === "process.exit")) throw e;
    } finally {
      closeBridges();
      process.chdir(cwd0);
    }
    res.builds++;
    const f = path.join(rootA, "e2e_out/parser.js");
    const strip = (x) => (x == null ? x : x.split(rootB).join("<ROOT>").split(rootA).join("<ROOT>"));
    const lb = globalThis.__last_build;
    return { code: lb ? lb.code : undefined, emitted: lb ? lb.emitted.map(strip) : null, printed: lb ? (lb.printed || []).map(strip) : null, disk: fs.existsSync(f) ? fs.readFileSync(f, "utf8") : null };
  };
  try {
    console.error = console.log = console.warn = console.info = () => {};
    process.exit = (code) => {
      throw Object.assign(new Error("process.exit"), { exitCode: code });
    };
    const seeds = (run.variants || []).map((v) => v.hash_seed);
    const variants = [
      { name: "absolute path", project: path.join(rootA, "beff.json"), cwd: base, seed: seeds[0] || 7 },
      { name: "absolute path, other hash keys", project: path.join(rootA, "beff.json"), cwd: base, seed: seeds[1] || 8 },
      // (a tsconfig.json above the project names the project directory by its real name in "paths": reaching the
      // project through a link would then be two spellings of one directory by configuration, not a fair comparison)
      { name: "through a symbolic link to the project directory", project: path.join(aliasAbove ? rootA : rootB, "beff.json"), cwd: base, seed: seeds[0] || 7 },
      { name: "relative to the working directory", project: path.relative(base, path.join(rootA, "beff.json")), cwd: base, seed: seeds[0] || 7 },
      { name: "working directory inside the project, reached through the link", project: "beff.json", cwd: aliasAbove ? rootA : rootB, seed: seeds[2] || 9 },
    ];
    let baseOut = null;
    for (const v of variants) {
      const o = once(v.project, v.cwd, v.seed);
      if (globalThis.__bridge_panics.length) {
        res.skipped = "the compiler panicked (the C04 check's business)";
        break;
      }
      if (!baseOut) {
        baseOut = o;
        continue;
      }
      res.compared++;
      if (canon({ c: o.code, e: o.emitted, p: o.printed }) !== canon({ c: baseOut.code, e: baseOut.emitted, p: baseOut.printed }) || o.disk !== baseOut.disk) {
        const what = o.code !== baseOut.code ? "code" : canon(o.emitted) !== canon(baseOut.emitted) ? "diagnostics" : canon(o.printed) !== canon(baseOut.printed) ? "printed diagnostics" : "generated file";
        if (!res.violations.length) res.violations.push({ class: "e2e-one-shot-output-depends-on:" + v.name, detail: { differs_in: what, symlinked_packages: linked, base: { code: baseOut.code == null ? null : "#" + fnv32(baseOut.code).toString(16), emitted: baseOut.emitted }, here: { code: o.code == null ? null : "#" + fnv32(o.code).toString(16), emitted: o.emitted } } });
      }
    }
    res.linked = linked;
    res.aliased = aliased;
    res.aliasedCompiled = aliased && !!(baseOut && baseOut.code);
    res.clash = !!(baseOut && baseOut.code && /node_modules_[A-Za-z0-9_]*_ts__/.test(baseOut.code));
  } catch (e) {
    res.skipped = "case could not be driven: " + String(e && e.stack).slice(0, 300);
  } finally {
    closeBridges();
    Object.assign(console, realConsole);
    process.exit = realExit;
    process.chdir(cwd0);
    fs.rmSync(rootB, { force: true });
    fs.rmSync(rootA, { recursive: true, force: true });
    fs.rmSync(path.join(base, "tsconfig.json"), { force: true });
  }
  return res;
}

// ---------------------------------------------------------------------------------------------
// worker: histories from..to, one result line each
// ---------------------------------------------------------------------------------------------
async function worker(from, to, explicitFile) {
  const base = path.join(OUT, "e2e_" + process.pid);
  fs.mkdirSync(base, { recursive: true });
  process.env.E2E_TMP = base;
  process.env.E2E_SIM = SIM;
  let T;
  try {
    T = buildTsNode(path.join(base, "host"));
    fs.writeFileSync(path.join(base, "host/pkg/beff_wasm.js"), BRIDGE_CLIENT);
  } catch (e) {
    fs.writeSync(1, "X " + JSON.stringify({ reason: String(e && e.message).slice(0, 300) }) + "\n");
    fs.rmSync(base, { recursive: true, force: true });
    return;
  }
  const out = (s) => fs.writeSync(1, s + "\n");
  if (explicitFile) {
    const run = JSON.parse(fs.readFileSync(explicitFile, "utf8"));
    const r = process.env.E2E_MODE === "oneshot" ? await execOneShot(T, run.run ?? run, base) : await execHistory(T, run.run ?? run, base);
    out("R -1 " + JSON.stringify(r));
  } else {
    for (let i = from; i < to; i++) {
      out("H " + i);
      let run;
      try {
        run = genRun(i);
      } catch (e) {
        out("R " + i + " " + JSON.stringify({ violations: [], skipped: "generator failed" }));
        continue;
      }
      if (run === null) {
        out("S " + i);
        continue;
      }
      const r = process.env.E2E_MODE === "oneshot" ? await execOneShot(T, run, base) : await execHistory(T, run, base);
      if (r.violations.length) r.run = run;
      out("R " + i + " " + JSON.stringify(r));
    }
  }
  fs.rmSync(base, { recursive: true, force: true });
}

// ---------------------------------------------------------------------------------------------
// parent: one worker at a time under a watchdog (a build that never returns blocks the worker for good)
// ---------------------------------------------------------------------------------------------
function runWorker(from, to, onLine, explicitFile) {
  return new Promise((resolve) => {
    const args = explicitFile ? [SELF, "worker", "0", "0", explicitFile] : [SELF, "worker", String(from), String(to)];
    const child = spawn(process.execPath, args, { stdio: ["ignore", "pipe", "ignore"] });
    let buf = "";
    let last = Date.now();
    let current = from - 1;
    const timer = setInterval(() => {
      if (Date.now() - last > 60000) {
        clearInterval(timer);
        child.kill("SIGKILL");
        resolve({ stalledAt: current });
      }
    }, 1000);
    child.stdout.on("data", (d) => {
      last = Date.now();
      buf += d;
      let nl;
      while ((nl = buf.indexOf("\n")) >= 0) {
        const line = buf.slice(0, nl);
        buf = buf.slice(nl + 1);
        if (line.startsWith("H ")) current = Number(line.slice(2));
        onLine(line);
      }
    });
    child.on("exit", () => {
      clearInterval(timer);
      resolve({ done: true });
    });
  });
}

const [cmd, a1, a2, a3] = process.argv.slice(2);
// `e2eleg.mjs <tier> oneshot` is the C10 flavour of the leg (execOneShot)
if (cmd !== "worker" && cmd !== "replay" && a1 === "oneshot") process.env.E2E_MODE = "oneshot";
if (cmd === "worker") {
  await worker(Number(a1), Number(a2), a3);
  process.exit(0);
}
if (cmd === "replay") {
  const file = JSON.parse(fs.readFileSync(a1, "utf8"));
  if (file.mode === "oneshot") process.env.E2E_MODE = "oneshot";
  let result = null;
  const r = await runWorker(0, 0, (line) => {
    if (line.startsWith("R ")) result = JSON.parse(line.slice(line.indexOf(" ", 2) + 1));
  }, a1);
  const hit = result && result.violations.find((v) => v.class === file.violation_class);
  if (hit || (r.stalledAt !== undefined && file.violation_class === "e2e-build-never-returns")) {
    console.log(`VIOLATION property=${file.property || "C14"} replay=${a1} class=${file.violation_class}`);
    process.exit(1);
  }
  console.log(`replay of ${a1} did not reproduce class '${file.violation_class}'${result && result.skipped ? " (" + result.skipped + ")" : ""}`);
  process.exit(0);
}
const tier = cmd === "thorough" ? "thorough" : "quick";
const ONESHOT = process.env.E2E_MODE === "oneshot";
const PROP = ONESHOT ? "C10" : "C14";
const N = Number(process.env.E2ELEG_RUNS || (ONESHOT ? (tier === "quick" ? 240 : 8000) : tier === "quick" ? 400 : 20000));
const t0 = Date.now();
const agg = { ran: true, projects_with_a_package: { what: "further indices of the C10 plan are scanned for projects with a package under node_modules (one synthetic project in five has one; in half of those a type of the package has the same name as a requested type of the project, so the emitted names carry the part of the two file paths that differs); each is built by the same five brand-new processes", projects: 0, scanned_without_a_package: 0, packages_laid_out_as_symbolic_links: 0, with_a_type_name_shared_by_package_and_project: 0, compared: 0 }, workspace_mode: { what: "histories whose project has a package under node_modules, executed once more with the package laid out as a symbolic link to a sibling directory (a workspace) and the entry file reaching the package's index file by a relative path as well: one file on disk under two spellings; a save reaches every watcher whose path leads to the file; the leg adds one save of the package's index file (first exported alias widened) and a checkpoint at the end", histories: 0, scanned_without_a_package: 0, packages_laid_out_as_symbolic_links: 0, saves_that_reached_watchers_under_two_spellings: 0, package_saves_added_by_the_leg: 0, compared: 0 }, histories: 0, checkpoints: 0, compared_with_a_fresh_one_shot_process: 0, change_events: 0, builds_in_watch_sessions: 0, skipped_because_the_compiler_panicked: 0, skipped_other: 0, stalled: [], violations: [] };
const first = new Map();
let notRunnable = null;
// the histories are spread over a few worker processes (each with its own host evaluation, scratch directory and
// compiler processes); which worker runs a history decides nothing about it
async function runRange(lo, hi) {
  let from = lo;
  while (from < hi && !notRunnable && agg.stalled.length <= 5) {
    const r = await runWorker(from, hi, (line) => {
      if (line.startsWith("X ")) notRunnable = JSON.parse(line.slice(2)).reason;
      if (line.startsWith("S ")) {
        from = Number(line.slice(2)) + 1;
        if (ONESHOT) agg.projects_with_a_package.scanned_without_a_package++;
        else agg.workspace_mode.scanned_without_a_package++;
        return;
      }
      if (!line.startsWith("R ")) return;
      const sp = line.indexOf(" ", 2);
      const idx = Number(line.slice(2, sp));
      const res = JSON.parse(line.slice(sp + 1));
      agg.histories++;
      agg.checkpoints += res.checkpoints || 0;
      agg.compared_with_a_fresh_one_shot_process += res.compared || 0;
      agg.change_events += res.events || 0;
      agg.builds_in_watch_sessions += res.builds || 0;
      agg.comparisons_in_which_the_host_printed_diagnostics = (agg.comparisons_in_which_the_host_printed_diagnostics || 0) + (res.printed_compared || 0);
      agg.checkpoints_reached_while_a_watched_file_other_than_the_entry_point_was_gone = (agg.checkpoints_reached_while_a_watched_file_other_than_the_entry_point_was_gone || 0) + (res.compared_while_a_watched_file_was_gone || 0);
      if (ONESHOT && res.aliased) {
        agg.projects_with_a_path_alias_in_tsconfig = (agg.projects_with_a_path_alias_in_tsconfig || 0) + 1;
        if (res.aliasedCompiled) agg.projects_with_a_path_alias_that_compile = (agg.projects_with_a_path_alias_that_compile || 0) + 1;
      }
      if (idx >= WS_BASE && ONESHOT) {
        agg.projects_with_a_package.projects++;
        agg.projects_with_a_package.packages_laid_out_as_symbolic_links += res.linked || 0;
        agg.projects_with_a_package.compared += res.compared || 0;
        if (res.clash) agg.projects_with_a_package.with_a_type_name_shared_by_package_and_project++;
      } else if (idx >= WS_BASE) {
        agg.workspace_mode.histories++;
        agg.workspace_mode.packages_laid_out_as_symbolic_links += res.linked || 0;
        agg.workspace_mode.saves_that_reached_watchers_under_two_spellings += res.saves_seen_under_two_spellings || 0;
        agg.workspace_mode.package_saves_added_by_the_leg += res.ws_edits || 0;
        agg.workspace_mode.compared += res.compared || 0;
      }
      if (res.skipped) {
        if (/panicked/.test(res.skipped)) agg.skipped_because_the_compiler_panicked++;
        else {
          agg.skipped_other++;
          agg.skipped_example = res.skipped;
        }
      }
      for (const v of res.violations || []) {
        const cur = first.get(v.class);
        if (!cur || idx < cur.index) first.set(v.class, { index: idx, run: res.run, v });
      }
      from = idx + 1;
    });
    if (r.stalledAt !== undefined) {
      // a build that did not return within a minute: hangs are the C04 check's business (it confirms them in
      // isolation and attributes known findings); here the history is left out and counted
      agg.stalled.push(r.stalledAt);
      from = Math.max(from, r.stalledAt + 1);
    } else if (r.done && from < hi && !notRunnable) {
      from++; // the worker ended early without a result for `from`
    }
  }
}
const W = Math.max(1, Math.min(Number(process.env.VERIF_WORKERS || 8), 8, N));
const per = Math.ceil(N / W);
const R = ONESHOT || process.env.E2ELEG_RUNS ? 0 : recorded().length;
// workspace mode scans the first WS_SCAN histories for projects with a package
const WS_SCAN = ONESHOT ? Number(process.env.E2ELEG_PKG_SCAN || (process.env.E2ELEG_RUNS ? 0 : tier === "quick" ? 6000 : 120000)) : Number(process.env.E2ELEG_WS_SCAN || (process.env.E2ELEG_RUNS ? 0 : tier === "quick" ? 2400 : 60000));
const wsPer = Math.ceil(WS_SCAN / W) || 1;
agg.recorded_histories_replayed = R;
await Promise.all([...Array.from({ length: W }, (_, k) => runRange(k * per, Math.min(N, (k + 1) * per))), ...(R ? [runRange(REC_BASE, REC_BASE + R)] : [])]);
const wsFrom = ONESHOT ? N : 0; // one-shot: the indices below N were run as they are
if (WS_SCAN) await Promise.all(Array.from({ length: W }, (_, k) => runRange(WS_BASE + wsFrom + k * wsPer, WS_BASE + wsFrom + Math.min(WS_SCAN, (k + 1) * wsPer))));
agg.stalled.sort((a, b) => a - b);
if (notRunnable) {
  agg.ran = false;
  agg.reason = notRunnable;
  console.log("NOTE: end-to-end leg skipped: " + notRunnable);
}
const lines = [];
for (const [cls, { index, run, v }] of [...first.entries()].sort()) {
  const file = { engine: "e2eleg", property: PROP, mode: ONESHOT ? "oneshot" : "watch", violation_class: cls, root_seed: ROOT, run_index: index, run, observed: v.detail };
  const dir = path.join(OUT, "replays", PROP);
  fs.mkdirSync(dir, { recursive: true });
  const p = path.join(dir, "e2eleg_" + fnv32(canon({ cls, index, ops: run && run.ops })).toString(16).padStart(8, "0") + ".json");
  fs.writeFileSync(p, JSON.stringify(file, null, 1));
  agg.violations.push({ class: cls, replay: p, first_seen_in_run: index });
  lines.push(`VIOLATION property=${PROP} replay=${p} class=${cls}`);
}
if (ONESHOT) delete agg.workspace_mode;
else delete agg.projects_with_a_package;
agg.wall_s = (Date.now() - t0) / 1000;
agg.what = "ssim's C14 histories executed end to end: the working tree's commandeer.ts / bundler.ts / bundle-to-disk.ts / project.ts in watch mode on a real scratch directory, the real compiler session (native, sim bridge) behind them; at every checkpoint the session's last build and the generated file are compared with a brand-new one-shot process";
if (ONESHOT) agg.what = "one-shot runs end to end (the working tree's commandeer.ts / bundler.ts / bundle-to-disk.ts / project.ts, the real compiler behind them via sim bridge) of the projects ssim generates for C10: five brand-new processes per project that differ in how the project is reached (absolute path, through a symbolic link, relative path, working directory inside the linked project; packages under node_modules are symbolic links into a store) and in the compiler's hash keys; what the compiler returns and the generated file must be identical";
fs.writeFileSync(path.join(OUT, ONESHOT ? "e2edet.json" : "e2eleg.json"), JSON.stringify(agg, null, 1));
for (const l of lines) console.log(l);
console.log(`${ONESHOT ? "E2EDET" : "E2ELEG"} histories=${agg.histories} checkpoints=${agg.checkpoints} compared=${agg.compared_with_a_fresh_one_shot_process} change_events=${agg.change_events} builds=${agg.builds_in_watch_sessions} skipped_panic=${agg.skipped_because_the_compiler_panicked} skipped_other=${agg.skipped_other} stalled=${agg.stalled.length} wall=${agg.wall_s.toFixed(1)}s`);
// vacuity guard: a leg whose histories cannot be driven, or that never gets to compare anything, has decided
// nothing (e.g. every build dies before it writes: session and fresh process fail alike, and every oracle here is
// differential) - that is a harness error, not a pass
if (!lines.length && !notRunnable && agg.histories >= 40 && (agg.compared_with_a_fresh_one_shot_process === 0 || agg.skipped_other * 4 > agg.histories)) {
  console.log(`HARNESS-ERROR: the end-to-end leg has become vacuous: ${agg.histories} histories, ${agg.compared_with_a_fresh_one_shot_process} comparisons, ${agg.skipped_other} histories could not be driven${agg.skipped_example ? " (" + String(agg.skipped_example).slice(0, 200).replace(/\n/g, " ") + ")" : ""}`);
  process.exit(2);
}
process.exit(lines.length ? 1 : 0);
