// hostprobe.mjs <outdir> : characterises the JavaScript host of the working tree by experiment.
//
// packages/beff-wasm/ts-node/bundler.ts installs resolve_import / read_file_content /
// emit_diagnostic for the compiler.  It cannot be linked into the native simulator, but it can be
// RUN: type-stripped, its import lines turned into require() (what the project's own build does),
// with stand-ins for the three packages that are not available offline (the wasm package itself,
// chalk, @babel/code-frame) and with the module resolver that is committed next to it
// (tsc-slim/out.js, the real TypeScript resolver).  The probe asks that host the questions whose
// answers the simulator's host model has to mirror, on a scratch directory, and writes them to
// <outdir>/host_model.json.  ssim's SimHost then behaves the way the real host was seen to behave.
import fs from "node:fs";
import path from "node:path";
import { buildHost, betweenBuilds as hostBetweenBuilds } from "./hostlib.mjs";

const out = path.resolve(process.argv[2]);
const HOME = process.env.VERIF_HOME || "/verif";
const REPO = process.env.VERIF_REPO || "/repo";
const TS = path.join(REPO, "packages/beff-wasm/ts-node");
const model = { characterised: false, positive_resolution_cache: false, negative_resolution_cache: false, resolver_cases: 0, resolver_disagreements: [], notes: [] };
const finish = (code) => {
  fs.mkdirSync(out, { recursive: true });
  fs.writeFileSync(path.join(out, "host_model.json"), JSON.stringify(model, null, 1));
  process.exit(code);
};
try {
  const work = path.join(out, "hostprobe");
  const { newHost, require } = buildHost(work);
  const cwd0 = process.cwd();
  const proj = path.join(work, "proj");
  fs.mkdirSync(path.join(proj, "x"), { recursive: true });
  fs.writeFileSync(path.join(proj, "tsconfig.json"), "{}");
  fs.writeFileSync(path.join(proj, "entry.ts"), 'import { T } from "./x";\n');
  fs.writeFileSync(path.join(proj, "x/index.ts"), "export type T = string;\n");
  process.chdir(proj);
  const host = newHost();
  const resolve = host.resolve;
  const betweenBuilds = () => {
    try {
      hostBetweenBuilds(host, path.join(proj, "entry.ts"));
    } catch (e) {
      model.notes.push("Bundler methods could not be driven: " + String(e && e.message).slice(0, 120));
    }
  };
  const entry = path.join(proj, "entry.ts");
  // 1. is a positive answer kept from one build to the next?
  const a1 = resolve(entry, "./x");
  fs.writeFileSync(path.join(proj, "x.ts"), "export type T = number;\n");
  betweenBuilds();
  const a2 = resolve(entry, "./x");
  if (a1 !== path.join(proj, "x/index.ts")) throw new Error("unexpected first resolution " + a1);
  model.positive_resolution_cache = a2 === a1;
  // 2. is a negative answer kept?
  const n1 = resolve(entry, "./later");
  fs.writeFileSync(path.join(proj, "later.ts"), "export type L = 1;\n");
  betweenBuilds();
  const n2 = resolve(entry, "./later");
  model.negative_resolution_cache = n1 == null && n2 == null;
  // 3. does a kept positive answer survive the deletion of the file it names?
  const d1 = resolve(entry, "./later");
  fs.rmSync(path.join(proj, "later.ts"));
  betweenBuilds();
  const d2 = resolve(entry, "./later");
  model.positive_answer_survives_deletion = d1 != null && d2 === d1;
  // 4. the simulator's resolver model against the real resolver (uncached path), on layouts the
  //    simulator proposes
  const casesFile = path.join(out, "resolver_cases.json");
  if (fs.existsSync(casesFile)) {
    const { resolveModuleName } = require("./tsc-slim/out.js");
    const host = { fileExists: (f) => fs.existsSync(f) && fs.statSync(f).isFile(), readFile: (f) => fs.readFileSync(f, "utf8") };
    const cases = JSON.parse(fs.readFileSync(casesFile, "utf8"));
    let k = 0;
    for (const c of cases) {
      const root = path.join(work, "rc", String(k++));
      fs.mkdirSync(root, { recursive: true });
      for (const f of c.files) {
        const p = path.join(root, f);
        fs.mkdirSync(path.dirname(p), { recursive: true });
        fs.writeFileSync(p, "export type X = 1;\n");
      }
      const got = resolveModuleName(c.spec, path.join(root, c.importer), {}, host).resolvedModule?.resolvedFileName ?? null;
      const rel = got == null ? null : path.relative(root, got).split(path.sep).join("/");
      const want = c.model == null ? null : c.model.replace(/^\/+/, "");
      model.resolver_cases++;
      if (rel !== want && model.resolver_disagreements.length < 20) model.resolver_disagreements.push({ files: c.files, importer: c.importer, spec: c.spec, real: rel, model: want });
    }
  }
  process.chdir(cwd0);
  model.characterised = true;
  fs.rmSync(work, { recursive: true, force: true });
  finish(0);
} catch (e) {
  model.notes.push("host not characterised: " + String(e && e.message).slice(0, 300));
  finish(0);
}
