// hostleg.mjs <quick|thorough> | replay <file>
// C14, the JavaScript half of the session: packages/beff-wasm/ts-node/bundler.ts keeps state for the
// life of the watch process (caches of import resolutions, of file texts for the printed code
// frames, ...).  One evaluation of that module = one host.  A seeded history changes files on a real
// scratch directory, lets build boundaries pass (what commandeer.ts does on a change: hand the file
// over, build), and asks the long-lived host and a brand-new host the same questions: what does
// (file, specifier) resolve to, what is printed for this diagnostic.  After a build boundary the two
// must agree - the answers depend on the files, not on what the host saw earlier.
// tsconfig.json and package.json are not edited (configuration, not sources the watcher follows).
import fs from "node:fs";
import path from "node:path";
import { Rng, fnv32, canon } from "./lib.mjs";
import { buildHost, betweenBuilds } from "./hostlib.mjs";
import { watchLoopLeg } from "./watchloop.mjs";

const HOME = process.env.VERIF_HOME || "/verif";
const ROOT = Number(process.env.VERIF_SEED || 1);
const OUT = path.join(HOME, "out");
const FILES = ["x.ts", "x/index.ts", "x.d.ts", "x.tsx", "y.ts", "sub/y.ts", "sub/x.ts", "node_modules/pkg/index.ts", "node_modules/pkg/index.d.ts", "sub/node_modules/pkg/index.ts"];
const IMPORTERS = ["entry.ts", "sub/e.ts"];
const SPECS = ["./x", "./x.js", "./x/index", "./y", "../x", "../y", "pkg", "./missing"];

function gen(index) {
  const rng = new Rng(ROOT, "hostleg", index);
  const files = {};
  for (const f of FILES) if (rng.chance(1, 3)) files[f] = text(rng, f, 0);
  for (const f of IMPORTERS) files[f] = text(rng, f, 0);
  const ops = [];
  const n = rng.range(3, 14);
  for (let i = 0; i < n; i++) {
    const r = rng.below(10);
    if (r < 3) ops.push({ op: "write", f: rng.pick([...FILES, ...IMPORTERS]), v: rng.range(1, 9) });
    else if (r < 4) ops.push({ op: "delete", f: rng.pick(FILES) });
    else if (r < 6) ops.push({ op: "build" });
    else if (r < 8) ops.push({ op: "resolve", from: rng.pick(IMPORTERS), spec: rng.pick(SPECS) });
    else ops.push({ op: "diagnostic", f: rng.pick([...FILES, ...IMPORTERS]), line: rng.range(1, 4) });
  }
  // the questions of the last stretch are asked again at the end, after a final build
  ops.push({ op: "build" });
  for (const from of IMPORTERS) ops.push({ op: "resolve", from, spec: rng.pick(SPECS) });
  ops.push({ op: "diagnostic", f: rng.pick(IMPORTERS), line: rng.range(1, 4) });
  return { files, ops };
}
function text(rng_or_v, f, v) {
  const ver = typeof rng_or_v === "number" ? rng_or_v : v;
  // every version has other text on every line, and another number of lines
  const lines = [];
  for (let l = 1; l <= 2 + (ver % 4); l++) lines.push(`export type L${l} = "${f} version ${ver} line ${l}";`);
  return lines.join("\n") + "\n";
}

function capture(fn) {
  const out = [];
  const e = console.error, l = console.log;
  console.error = (...a) => out.push(a.join(" "));
  console.log = (...a) => out.push(a.join(" "));
  try {
    fn();
  } catch (err) {
    out.push("THROWS " + String(err && err.message));
  } finally {
    console.error = e;
    console.log = l;
  }
  return out.join("\n");
}

function exec(H, run, dir) {
  fs.rmSync(dir, { recursive: true, force: true });
  fs.mkdirSync(dir, { recursive: true });
  fs.writeFileSync(path.join(dir, "tsconfig.json"), "{}");
  const abs = (f) => path.join(dir, f);
  const put = (f, c) => {
    fs.mkdirSync(path.dirname(abs(f)), { recursive: true });
    fs.writeFileSync(abs(f), c);
  };
  for (const [f, c] of Object.entries(run.files)) put(f, c);
  const cwd0 = process.cwd();
  process.chdir(dir);
  const out = { violations: [], asked: 0, compared: 0, boundaries: 0, fs_changes: 0, stale_possible: 0 };
  try {
    let session = H.newHost();
    const sessionState = session; // evaluated once, lives for the whole history
    let dirty = false; // files changed since the last build boundary
    const entry = abs("entry.ts");
    // the session has built once before the history starts
    betweenBuilds(sessionState, entry);
    for (const [f] of Object.entries(run.files)) void f;
    const rel = (p) => (p == null ? null : path.relative(dir, p).split(path.sep).join("/"));
    for (let i = 0; i < run.ops.length; i++) {
      const op = run.ops[i];
      if (op.op === "write") {
        put(op.f, text(op.v, op.f, op.v));
        dirty = true;
        out.fs_changes++;
      } else if (op.op === "delete") {
        if (fs.existsSync(abs(op.f))) {
          fs.rmSync(abs(op.f));
          dirty = true;
          out.fs_changes++;
        }
      } else if (op.op === "build") {
        // re-install the session's globals (a fresh host evaluated in between took them over)
        globalThis.resolve_import = sessionState.resolve;
        globalThis.emit_diagnostic = sessionState.emit;
        betweenBuilds(sessionState, entry);
        dirty = false;
        out.boundaries++;
      } else if (op.op === "resolve" || op.op === "diagnostic") {
        out.asked++;
        const ask = (h) => {
          if (op.op === "resolve") return JSON.stringify(rel(h.resolve(abs(op.from), op.spec)));
          const d = { diagnostics: [{ KnownFile: { message: "m", file_name: abs(op.f), line_lo: op.line, col_lo: 0, line_hi: op.line, col_hi: 3 } }] };
          return capture(() => h.emit(JSON.stringify(d))).split(dir).join("<root>");
        };
        const got = ask(sessionState);
        if (dirty) continue; // within a build the host may answer from what it already knows
        const fresh = H.newHost();
        const want = ask(fresh);
        out.compared++;
        if (got !== want) {
          const cls = op.op === "resolve" ? "js-host-resolution-differs-from-a-fresh-host" : "js-host-printed-diagnostic-differs-from-a-fresh-host";
          if (!out.violations.some((v) => v.class === cls)) out.violations.push({ property: "C14", class: cls, detail: { op_index: i, op, session: got.slice(0, 400), fresh: want.slice(0, 400) } });
        }
      }
    }
  } finally {
    process.chdir(cwd0);
    fs.rmSync(dir, { recursive: true, force: true });
  }
  return out;
}

// ddmin over the op list (files stay)
function minimize(H, run, cls, dir) {
  let ops = run.ops.slice();
  const fails = (cand) => exec(H, { files: run.files, ops: cand }, dir).violations.some((v) => v.class === cls);
  let n = 2;
  while (ops.length >= 2) {
    const chunk = Math.ceil(ops.length / n);
    let reduced = false;
    for (let i = 0; i < ops.length; i += chunk) {
      const cand = ops.slice(0, i).concat(ops.slice(i + chunk));
      if (cand.length && fails(cand)) {
        ops = cand;
        n = Math.max(n - 1, 2);
        reduced = true;
        break;
      }
    }
    if (!reduced) {
      if (n >= ops.length) break;
      n = Math.min(ops.length, n * 2);
    }
  }
  return { files: run.files, ops };
}

const [, , cmd, a1] = process.argv;
const work = path.join(OUT, "hostleg_host_" + process.pid);
const scratch = path.join(OUT, "hostleg_proj_" + process.pid);
let H;
try {
  H = buildHost(work);
} catch (e) {
  // the host cannot be run (refactored beyond what the builder knows): the leg is skipped, and says so
  fs.writeFileSync(path.join(OUT, "hostleg.json"), JSON.stringify({ ran: false, reason: String(e && e.message).slice(0, 300) }, null, 1));
  console.log("NOTE: JavaScript host leg skipped: " + String(e && e.message).slice(0, 200));
  process.exit(0);
}
if (cmd === "replay") {
  const file = JSON.parse(fs.readFileSync(a1, "utf8"));
  if (file.kind === "watchloop") {
    // seeded: the history is a function of (seed, index); histories 0..index are run again
    const r = await watchLoopLeg(OUT, file.run_index + 1, file.root_seed);
    fs.rmSync(work, { recursive: true, force: true });
    if (r.violations.some((v) => v.class === file.violation_class)) {
      console.log(`VIOLATION property=C14 replay=${a1} class=${file.violation_class}`);
      process.exit(1);
    }
    console.log(`replay of ${a1} did not reproduce class '${file.violation_class}'`);
    process.exit(0);
  }
  const r = exec(H, file, scratch);
  fs.rmSync(work, { recursive: true, force: true });
  const hit = r.violations.find((v) => v.class === file.violation_class);
  if (hit) {
    console.log(`VIOLATION property=C14 replay=${a1} class=${hit.class}`);
    process.exit(1);
  }
  console.log(`replay of ${a1} did not reproduce class '${file.violation_class}'`);
  process.exit(0);
}
const tier = cmd === "thorough" ? "thorough" : "quick";
const N = Number(process.env.HOSTLEG_RUNS || (tier === "quick" ? 400 : 40000));
const t0 = Date.now();
const agg = { ran: true, runs: N, asked: 0, compared: 0, boundaries: 0, fs_changes: 0, violations: [] };
const first = new Map();
for (let i = 0; i < N; i++) {
  const run = gen(i);
  const r = exec(H, run, scratch);
  for (const k of ["asked", "compared", "boundaries", "fs_changes"]) agg[k] += r[k];
  for (const v of r.violations) if (!first.has(v.class)) first.set(v.class, { index: i, run, v });
}
// recorded histories (corpus/regress_host.json: minimised replay files of the repaired host defects and of the
// detections of independently written breaking changes), executed as explicit runs after the seeded ones
agg.recorded_histories_replayed = 0;
try {
  const reg = JSON.parse(fs.readFileSync(path.join(HOME, "corpus/regress_host.json"), "utf8"));
  let k = 0;
  for (const e of reg) {
    const r = e.run;
    if (r.engine !== "hostleg" || r.kind === "watchloop" || !Array.isArray(r.ops)) continue;
    const run = { files: r.files, ops: r.ops };
    const res = exec(H, run, scratch);
    agg.recorded_histories_replayed++;
    for (const kk of ["asked", "compared", "boundaries", "fs_changes"]) agg[kk] += res[kk];
    for (const v of res.violations) if (!first.has(v.class)) first.set(v.class, { index: 1e12 + k, run, v });
    k++;
  }
} catch {}
const lines = [];
for (const [cls, { index, run }] of [...first.entries()].sort()) {
  const min = minimize(H, run, cls, scratch);
  const final = exec(H, min, scratch).violations.find((v) => v.class === cls);
  const file = { engine: "hostleg", property: "C14", violation_class: cls, root_seed: ROOT, run_index: index, ...min, observed: final ? final.detail : null };
  const dir = path.join(OUT, "replays", "C14");
  fs.mkdirSync(dir, { recursive: true });
  const p = path.join(dir, "hostleg_" + fnv32(canon(file)).toString(16).padStart(8, "0") + ".json");
  fs.writeFileSync(p, JSON.stringify(file, null, 1));
  agg.violations.push({ class: cls, replay: p, first_seen_in_run: index });
  lines.push(`VIOLATION property=C14 replay=${p} class=${cls}`);
}
// the watch loop of commandeer.ts, with controllable stand-ins for chokidar / commander / wasm
const wl = await watchLoopLeg(OUT, tier === "quick" ? 200 : 15000, ROOT);
agg.watch_loop = { ...wl, what: "commandeer.ts + bundler.ts + bundle-to-disk.ts evaluated for real in watch mode (stand-ins: chokidar with recorded watchers, commander, the wasm package with recorded calls); seeded histories of saves, change events, changing read sets and failing builds; W1 change hands the current content over first, W2 then builds, W3 every file a build reads is watched, W4 the output on disk is the last successful build" };
for (const v of wl.violations) {
  const file = { engine: "hostleg", kind: "watchloop", property: "C14", violation_class: v.class, root_seed: ROOT, run_index: v.detail.history ?? 0, observed: v.detail };
  const dir = path.join(OUT, "replays", "C14");
  fs.mkdirSync(dir, { recursive: true });
  const p = path.join(dir, "hostleg_" + fnv32(canon(file)).toString(16).padStart(8, "0") + ".json");
  fs.writeFileSync(p, JSON.stringify(file, null, 1));
  agg.violations.push({ class: v.class, replay: p, first_seen_in_run: file.run_index });
  lines.push(`VIOLATION property=C14 replay=${p} class=${v.class}`);
}
if (!wl.ran) console.log("NOTE: watch-loop leg skipped: " + wl.reason);
agg.wall_s = (Date.now() - t0) / 1000;
agg.what = "seeded histories (file writes / deletions on a real scratch directory, build boundaries, resolve_import and emit_diagnostic questions) against ONE evaluation of the working tree's bundler.ts, every answer after a build boundary compared with a brand-new evaluation";
fs.writeFileSync(path.join(OUT, "hostleg.json"), JSON.stringify(agg, null, 1));
fs.rmSync(work, { recursive: true, force: true });
for (const l of lines) console.log(l);
console.log(`HOSTLEG runs=${N} questions=${agg.asked} compared=${agg.compared} build_boundaries=${agg.boundaries} fs_changes=${agg.fs_changes} watch_loop_histories=${wl.histories ?? 0} change_events=${wl.change_events ?? 0} wall=${agg.wall_s.toFixed(1)}s`);
process.exit(lines.length ? 1 : 0);
