// hostdet.mjs <quick|thorough> | child <cases.json> <out.json> | replay <file>
// C10, the JavaScript half of a one-shot `beff -p` run: what ends up on disk (gen/parser.js) and
// what the host hands to the compiler (entry point, serialised settings) must be a function of the
// project file and of the code the compiler returns - not of the process (locale, time zone,
// working directory, verbosity), not of what the output directory held before, not of how often
// the host ran in the process. The working tree's commandeer.ts / bundler.ts / bundle-to-disk.ts /
// project.ts run for real (type-stripped, hostlib.buildTsNode); the compiler is a stand-in that
// returns the seeded code of the case (the compiler's own determinism is ssim's business).
import fs from "node:fs";
import path from "node:path";
import { spawnSync } from "node:child_process";
import { fileURLToPath } from "node:url";
import { Rng, fnv32, canon } from "./lib.mjs";
import { buildTsNode } from "./hostlib.mjs";

const HOME = process.env.VERIF_HOME || "/verif";
const ROOT = Number(process.env.VERIF_SEED || 1);
const OUT = path.join(HOME, "out");
const SELF = fileURLToPath(import.meta.url);
const NAMES = ["password", "age", "ch", "h", "i", "ä", "z", "a", "Å", "aa", "Hex-Color", "email", "Z", "éclair", "y", "ı"];
const LITS = ["on hold", "onhold", "on  hold", "on\thold", " on hold", "a b", "x"];

function genCase(index) {
  const rng = new Rng(ROOT, "hostdet", index);
  const pickNames = () => rng.shuffle([...NAMES]).slice(0, rng.below(5));
  return {
    index,
    module: rng.pick(["esm", "cjs", undefined]),
    stringFormats: pickNames(),
    numberFormats: pickNames(),
    code: `/*CODE ${index}*/\nconst lit = ${JSON.stringify(rng.pick(LITS))};\nconst n = ${rng.below(1000)};\nconst hoisted_${index} = [lit, n];\nconst buildParsersInput = {};\n`,
    // what the output directory holds before: nothing, another project's output, this project's
    // output with other white space inside the string literal, or exactly the output to come
    pre: rng.pick(["empty", "other", "whitespace", "same", "empty"]),
    verbose: rng.chance(1, 4),
    twice: rng.chance(1, 3),
    // how the project is named and spelled: a path relative to the working directory, a directory reached
    // through a symbolic link, the same project file with its keys in another order and other white space
    relative: rng.chance(1, 4),
    symlink: rng.chance(1, 4),
    respelled: rng.chance(1, 4),
  };
}

function quiet(fn) {
  const e = console.error, l = console.log;
  console.error = () => {};
  console.log = () => {};
  try {
    return fn();
  } finally {
    console.error = e;
    console.log = l;
  }
}

// one case in this process: returns what was written and what the compiler was asked
function runCase(T, c, dir, applyVariants) {
  fs.rmSync(dir, { recursive: true, force: true });
  fs.mkdirSync(dir, { recursive: true });
  // (the custom formats sit at the top level of the project file)
  const proj = { parser: "entry.ts", outputDir: "gen", stringFormats: c.stringFormats.map((name) => ({ name })), numberFormats: c.numberFormats.map((name) => ({ name })) };
  if (c.module) proj.module = c.module;
  fs.writeFileSync(path.join(dir, "entry.ts"), "export type T = string;\n");
  fs.writeFileSync(path.join(dir, "beff.json"), JSON.stringify(proj));
  const link = dir + "_link";
  fs.rmSync(link, { recursive: true, force: true });
  const once = (verbose, project = path.join(dir, "beff.json")) => {
    globalThis.__beff_cli_opts = { watch: false, project, verbose };
    globalThis.__wasm_behaviour = { reads: () => [path.join(dir, "entry.ts")], result: () => c.code };
    const cwd = process.cwd();
    try {
      const C = T.newProcess();
      quiet(() => C.commanderExec());
    } finally {
      process.chdir(cwd);
    }
    const f = path.join(dir, "gen/parser.js");
    const calls = (globalThis.__wasm_calls || []).filter((x) => x.name === "bundle_to_string_v2").map((x) => x.args.map((a) => String(a).split(link).join("<P>").split(dir).join("<P>")));
    return { parser: fs.existsSync(f) ? fs.readFileSync(f, "utf8") : null, calls };
  };
  const first = once(false);
  const results = [{ variant: "empty output directory", ...first }];
  if (!applyVariants) return results;
  const out = path.join(dir, "gen/parser.js");
  if (c.pre !== "empty" && first.parser != null) {
    let before = first.parser;
    if (c.pre === "other") before = "// output of another project\nexport default {};\n";
    else if (c.pre === "whitespace") before = first.parser.replace(/const lit = "([^"]*)"/, (_m, s) => `const lit = ${JSON.stringify(s.includes(" ") ? s.replace(/ /g, "") : s + " ")}`);
    fs.writeFileSync(out, before);
    results.push({ variant: "output directory held: " + c.pre, ...once(false) });
  }
  if (c.verbose) results.push({ variant: "verbose", ...once(true) });
  if (c.twice) results.push({ variant: "second run of the host in the process", ...once(false) });
  if (c.relative) results.push({ variant: "project path relative to the working directory", ...once(false, path.relative(process.cwd(), path.join(dir, "beff.json")) || "beff.json") });
  if (c.symlink) {
    try {
      fs.symlinkSync(dir, link, "dir");
      results.push({ variant: "project directory reached through a symbolic link", ...once(false, path.join(link, "beff.json")) });
    } catch {}
    fs.rmSync(link, { recursive: true, force: true });
  }
  if (c.respelled) {
    const keys = Object.keys(proj).reverse();
    fs.writeFileSync(path.join(dir, "beff.json"), JSON.stringify(Object.fromEntries(keys.map((k) => [k, proj[k]])), null, "\t") + "\n\n");
    results.push({ variant: "project file with its keys in another order and other white space", ...once(false) });
  }
  return results;
}

function child(casesFile, outFile) {
  const cases = JSON.parse(fs.readFileSync(casesFile, "utf8"));
  const work = path.join(OUT, "hostdet_host_" + process.pid);
  const T = buildTsNode(work);
  fs.writeFileSync(path.join(work, "package.json"), '{"type":"commonjs"}');
  const res = {};
  for (const c of cases) {
    try {
      res[c.index] = runCase(T, c, path.join(OUT, "hostdet_proj_" + process.pid), true);
    } catch (e) {
      res[c.index] = [{ variant: "threw", parser: null, calls: [], error: String(e && e.message).slice(0, 200) }];
    }
  }
  fs.rmSync(work, { recursive: true, force: true });
  fs.rmSync(path.join(OUT, "hostdet_proj_" + process.pid), { recursive: true, force: true });
  fs.writeFileSync(outFile, JSON.stringify(res));
}

const ENVS = [
  { name: "base", env: {}, cwd: HOME },
  { name: "cs_CZ, Asia/Tokyo, cwd /", env: { LC_ALL: "cs_CZ.UTF-8", LANG: "cs_CZ.UTF-8", TZ: "Asia/Tokyo", NO_COLOR: "1", NODE_ENV: "production", CI: "true", TERM: "dumb", HOME: "/nonexistent", USER: "nobody" }, cwd: "/" },
  { name: "sv_SE, America/St_Johns", env: { LC_ALL: "sv_SE.UTF-8", LANG: "sv_SE.UTF-8", TZ: "America/St_Johns", FORCE_COLOR: "1", NODE_ENV: "development", DEBUG: "*", TMPDIR: "/var/tmp", npm_config_user_agent: "pnpm/9.0.0" }, cwd: OUT },
];

function runAll(cases) {
  const outs = [];
  for (const [k, e] of ENVS.entries()) {
    const cf = path.join(OUT, `hostdet_cases_${process.pid}_${k}.json`);
    const of = path.join(OUT, `hostdet_out_${process.pid}_${k}.json`);
    fs.writeFileSync(cf, JSON.stringify(cases));
    const r = spawnSync(process.execPath, [SELF, "child", cf, of], { env: { ...process.env, ...e.env }, cwd: e.cwd, encoding: "utf8" });
    let parsed = null;
    if (r.status === 0 && fs.existsSync(of)) parsed = JSON.parse(fs.readFileSync(of, "utf8"));
    fs.rmSync(cf, { force: true });
    fs.rmSync(of, { force: true });
    if (!parsed) return { error: `child for environment '${e.name}' failed: ${(r.stderr || r.stdout || "").slice(0, 300)}` };
    outs.push(parsed);
  }
  return { outs };
}

function compare(cases, outs) {
  const violations = [];
  let compared = 0;
  for (const c of cases) {
    const base = outs[0][c.index] && outs[0][c.index][0];
    if (!base) continue;
    if (base.parser != null && [...c.stringFormats, ...c.numberFormats].every((n) => base.parser.includes(JSON.stringify(n)))) compare.named = (compare.named || 0) + 1;
    for (const [k, o] of outs.entries()) {
      for (const r of o[c.index] || []) {
        compared++;
        const what = r.parser !== base.parser ? "parser.js" : canon(r.calls) !== canon(base.calls) ? "what the compiler is asked" : null;
        if (what) {
          const cls = k === 0 ? `host-output-depends-on:${r.variant.replace(/:.*/, "")}` : "host-output-depends-on:the process environment";
          if (!violations.some((v) => v.class === cls)) violations.push({ class: cls, case: c, detail: { differs_in: what, environment: ENVS[k].name, variant: r.variant, base: String(base.parser).slice(0, 300), here: String(r.parser).slice(0, 300), calls_base: base.calls, calls_here: r.calls, error: r.error } });
        }
      }
    }
  }
  return { violations, compared };
}

const [cmd, a1, a2] = process.argv.slice(2);
if (cmd === "child") {
  child(a1, a2);
  process.exit(0);
}
if (cmd === "replay") {
  const file = JSON.parse(fs.readFileSync(a1, "utf8"));
  const r = runAll([file.case]);
  if (r.error) {
    console.log("HARNESS-ERROR: " + r.error);
    process.exit(2);
  }
  const { violations } = compare([file.case], r.outs);
  const hit = violations.find((v) => v.class === file.violation_class) || violations[0];
  if (hit) {
    console.log(`VIOLATION property=C10 replay=${a1} class=${hit.class}`);
    process.exit(1);
  }
  console.log(`replay of ${a1} did not reproduce class '${file.violation_class}'`);
  process.exit(0);
}
const tier = cmd || "quick";
const N = tier === "quick" ? 300 : 20000;
const t0 = Date.now();
const cases = Array.from({ length: N }, (_, i) => genCase(i));
let agg;
try {
  const r = runAll(cases);
  if (r.error) agg = { ran: false, reason: r.error, violations: [] };
  else {
    const { violations, compared } = compare(cases, r.outs);
    agg = { ran: true, cases: N, cases_whose_output_names_all_their_formats: compare.named || 0, environments: ENVS.map((e) => e.name), outputs_compared: compared, violations: [] };
    for (const v of violations) {
      const file = { engine: "hostdet", property: "C10", violation_class: v.class, root_seed: ROOT, run_index: v.case.index, case: v.case, observed: v.detail };
      const dir = path.join(OUT, "replays/C10");
      fs.mkdirSync(dir, { recursive: true });
      const p = path.join(dir, "hostdet_" + fnv32(canon(file)).toString(16).padStart(8, "0") + ".json");
      fs.writeFileSync(p, JSON.stringify(file, null, 1));
      agg.violations.push({ class: v.class, replay: p });
      console.log(`VIOLATION property=C10 replay=${p} class=${v.class}`);
    }
  }
} catch (e) {
  agg = { ran: false, reason: String(e && e.stack).slice(0, 400), violations: [] };
}
agg.wall_s = (Date.now() - t0) / 1000;
fs.writeFileSync(path.join(OUT, "hostdet.json"), JSON.stringify(agg, null, 1));
if (!agg.ran) console.log("NOTE: the JavaScript host could not be run for the C10 leg: " + agg.reason);
console.log(`HOSTDET cases=${agg.cases || 0} outputs_compared=${agg.outputs_compared || 0} environments=${ENVS.length} wall=${agg.wall_s.toFixed(1)}s`);
process.exit(agg.violations.length ? 1 : 0);
