// Shared helpers for jsim: seeded PRNG, canonical JSON, worker pool.
import { fork } from "node:child_process";
import fs from "node:fs";

// CPU seconds of a process (user + system): stall detection counts CPU, not wall time, so that a
// worker starved by other load is not mistaken for one in an endless loop.
function cpuSecs(pid) {
  try {
    const s = fs.readFileSync(`/proc/${pid}/stat`, "utf8");
    const f = s.slice(s.lastIndexOf(")") + 2).split(" ");
    return (Number(f[11]) + Number(f[12])) / 100;
  } catch {
    return null;
  }
}

export function fnv32(str) {
  let h = 0x811c9dc5;
  for (let i = 0; i < str.length; i++) {
    h ^= str.charCodeAt(i);
    h = Math.imul(h, 0x01000193) >>> 0;
  }
  return h >>> 0;
}

// one integer decides everything: xoshiro128** seeded from (root, label, index)
export class Rng {
  constructor(root, label, index) {
    const s = `${root}/${label}/${index}`;
    let x = fnv32(s);
    const sm = () => {
      x = (x + 0x9e3779b9) >>> 0;
      let z = x;
      z = Math.imul(z ^ (z >>> 16), 0x85ebca6b) >>> 0;
      z = Math.imul(z ^ (z >>> 13), 0xc2b2ae35) >>> 0;
      return (z ^ (z >>> 16)) >>> 0;
    };
    this.s = [sm(), sm(), sm(), sm()];
    if ((this.s[0] | this.s[1] | this.s[2] | this.s[3]) === 0) this.s[0] = 1;
  }
  next() {
    const s = this.s;
    const r = (Math.imul(rotl(Math.imul(s[1], 5) >>> 0, 7), 9)) >>> 0;
    const t = (s[1] << 9) >>> 0;
    s[2] = (s[2] ^ s[0]) >>> 0;
    s[3] = (s[3] ^ s[1]) >>> 0;
    s[1] = (s[1] ^ s[2]) >>> 0;
    s[0] = (s[0] ^ s[3]) >>> 0;
    s[2] = (s[2] ^ t) >>> 0;
    s[3] = rotl(s[3], 11);
    return r;
  }
  below(n) {
    return this.next() % n;
  }
  range(lo, hi) {
    return lo + this.below(hi - lo + 1);
  }
  chance(num, den) {
    return this.next() % den < num;
  }
  pick(arr) {
    return arr[this.below(arr.length)];
  }
  shuffle(arr) {
    for (let i = arr.length - 1; i > 0; i--) {
      const j = this.below(i + 1);
      [arr[i], arr[j]] = [arr[j], arr[i]];
    }
    return arr;
  }
}
function rotl(x, k) {
  return ((x << k) | (x >>> (32 - k))) >>> 0;
}

// deep equality ignoring object key order = equality of canonical strings
export function canon(v) {
  if (v === undefined) return "undefined";
  if (v === null || typeof v !== "object") return JSON.stringify(v);
  if (Array.isArray(v)) return "[" + v.map(canon).join(",") + "]";
  const keys = Object.keys(v).sort();
  return "{" + keys.map((k) => JSON.stringify(k) + ":" + canon(v[k])).join(",") + "}";
}

export function collectRefs(v, out) {
  if (v === null || typeof v !== "object") return out;
  if (Array.isArray(v)) {
    for (const x of v) collectRefs(x, out);
    return out;
  }
  for (const k of Object.keys(v)) {
    if (k === "$ref" && typeof v[k] === "string") out.push(v[k]);
    else collectRefs(v[k], out);
  }
  return out;
}

// Run `indices` over `workers` child processes of `script` (argv: "worker", ...args).
// Each child receives {index} messages, announces {start, run} before executing and answers
// {index, result}. Pure function of the index. A child that stays silent for `stallMs` while it
// works on a run is killed and the run is handed to onStall (and a new child takes over).
export function pool(script, args, indices, workers, onResult, onStall = null, stallMs = 20000, env = null) {
  return new Promise((resolve, reject) => {
    let next = 0;
    let live = 0;
    let failed = null;
    let stalls = 0;
    const n = Math.max(1, Math.min(workers, indices.length));
    const spawn = () => {
      const child = fork(script, ["worker", ...args], { stdio: ["ignore", "ignore", "inherit", "ipc"], ...(env ? { env: { ...process.env, ...env } } : {}) });
      live++;
      let busy = null; // {index, run, since}
      let done = false;
      const feed = () => {
        busy = null;
        if (next < indices.length && stalls < 6) {
          // an entry is a run index (the worker generates the run) or {index, run} (an explicit, recorded run)
          const it = indices[next++];
          child.send(typeof it === "object" ? it : { index: it });
        }
        else {
          done = true;
          child.send({ done: true });
        }
      };
      const timer = setInterval(() => {
        const cpuNow = busy ? cpuSecs(child.pid) : null;
        const burnt = busy && cpuNow != null && busy.cpu != null ? (cpuNow - busy.cpu) * 1000 : Infinity;
        if (busy && Date.now() - busy.since > stallMs && (burnt > stallMs || Date.now() - busy.since > stallMs * 30)) {
          clearInterval(timer);
          stalls++;
          const b = busy;
          busy = null;
          done = true;
          child.kill("SIGKILL");
          if (onStall) onStall(b.index, b.run);
          if (next < indices.length && stalls < 6) spawn();
        }
      }, 500);
      child.on("message", (m) => {
        if (m.ready) return feed();
        if (m.start !== undefined) {
          busy = { index: m.start, run: m.run, since: Date.now(), cpu: cpuSecs(child.pid) };
          return;
        }
        if (m.fatal) {
          failed = m.fatal;
          child.kill();
          return;
        }
        onResult(m.index, m.result);
        if (m.recycle && next < indices.length && stalls < 6) {
          // the worker asks to be replaced (it keeps module instances alive that cannot be freed)
          done = true;
          busy = null;
          child.send({ done: true });
          spawn();
          return;
        }
        feed();
      });
      child.on("exit", (code) => {
        clearInterval(timer);
        live--;
        if (code !== 0 && !done && failed == null && next < indices.length) failed = `worker exited with ${code}`;
        if (live === 0) failed ? reject(new Error(failed)) : resolve({ stalls, executed: next });
      });
    };
    for (let w = 0; w < n; w++) spawn();
  });
}

// Execute one explicit run alone in a fresh child with a time limit.
export function alone(script, args, run, limitMs, env = null) {
  return new Promise((resolve) => {
    const child = fork(script, ["worker", ...args], { stdio: ["ignore", "ignore", "inherit", "ipc"], ...(env ? { env: { ...process.env, ...env } } : {}) });
    let t0 = Date.now();
    let cpu0 = 0;
    const t = setInterval(() => {
      const cpuNow = cpuSecs(child.pid);
      const cpu = cpuNow != null ? cpuNow - cpu0 : null;
      if ((cpu != null && cpu * 1000 > limitMs) || Date.now() - t0 > limitMs * 20) {
        clearInterval(t);
        child.kill("SIGKILL");
        resolve({ stalled: true });
      }
    }, 250);
    child.on("message", (m) => {
      if (m.ready) return child.send({ index: -1, run });
      if (m.start !== undefined) {
        // a second announcement of the same run is a heartbeat: the limit is per call, not per run
        t0 = Date.now();
        cpu0 = cpuSecs(child.pid) ?? cpu0;
        return;
      }
      clearInterval(t);
      child.send({ done: true });
      resolve(m.fatal ? { fatal: m.fatal } : { result: m.result });
    });
  });
}
